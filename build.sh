#!/bin/bash
# build.sh — instrument a scratch copy of /repo's current working tree and build the
# simulation binaries against it. Prints the build directory on the last line.
# Exit 2 on any build problem (never a VIOLATION).
set -u
export PATH=/opt/veriftools/go1.26.8/bin:$PATH
export GOFLAGS=-mod=mod GOPROXY=off GOSUMDB=off GOTOOLCHAIN=local
VERIF=$(cd "$(dirname "$0")" && pwd)
REPO=${VERIF_REPO:-/repo}
CACHE=${VERIF_CACHE:-${XDG_CACHE_HOME:-$HOME/.cache}/vuego-sim}
FLAVOURS=${1:-plain}   # "plain", "race" or "plain race"
mkdir -p "$CACHE"

fail() { echo "build.sh: $*" >&2; exit 2; }

# content hash of the working tree (tracked + untracked, not ignored) and of the machinery
treehash() {
  ( cd "$REPO" && git ls-files -co --exclude-standard -z | sort -z | xargs -0 sha256sum 2>/dev/null
    cd "$VERIF" && find simrt simgen sim -type f \( -name '*.go' -o -name 'go.mod' \) -print0 | sort -z | xargs -0 sha256sum
    cat "$VERIF/build.sh" ) | sha256sum | cut -c1-20
}
H=$(treehash)
B="$CACHE/$H"
exec 9>"$CACHE/.lock"; flock 9

if [ ! -f "$B/.instrumented" ]; then
  rm -rf "$B"; mkdir -p "$B/src" "$B/bin"
  ( cd "$REPO" && git ls-files -co --exclude-standard -z | rsync -a --from0 --files-from=- ./ "$B/src/" ) || fail "copy failed"
  mkdir -p "$B/src/simrt" && cp "$VERIF"/simrt/*.go "$B/src/simrt/" || fail "simrt copy failed"
  if [ ! -x "$CACHE/simgen" ] || [ -n "$(find "$VERIF/simgen" -newer "$CACHE/simgen" -name '*.go')" ]; then
    ( cd "$VERIF/simgen" && go build -o "$CACHE/simgen" . ) || fail "simgen build failed"
  fi
  ( cd "$B/src" && "$CACHE/simgen" -dir . -sites "$B/sites.json" ) > "$B/simgen.log" 2>&1 || { cat "$B/simgen.log" >&2; fail "simgen failed"; }
  ( cd "$B/src" && go build ./... ) > "$B/vet.log" 2>&1 || { cat "$B/vet.log" >&2; fail "instrumented copy does not build"; }
  # Translation validation of the rewrite: with simrt in pass-through mode the repository's own tests must
  # give the same pass set inside the instrumented copy as BASELINE.json records (if a test of the stable set
  # fails here it must fail identically on the un-instrumented working tree, else the rewrite is unfaithful).
  if [ "${SIM_SKIP_FAITHFULNESS:-0}" != 1 ]; then
    ( cd "$B/src" && go test -json -vet=off -count=1 -timeout 20m ./... > "$B/faith.json" 2>/dev/null )
    python3 - "$B/faith.json" "$REPO" > "$B/faith.log" 2>&1 <<'PY' || { cat "$B/faith.log" >&2; fail "instrumentation is not faithful (see above)"; }
import json,sys,subprocess,os
def passed(path):
    ok=set(); bad=set()
    for l in open(path):
        try: e=json.loads(l)
        except Exception: continue
        if e.get('Test'):
            k=e['Package']+'::'+e['Test']
            if e.get('Action')=='pass': ok.add(k)
            elif e.get('Action')=='fail': bad.add(k)
    return ok,bad
base=set(json.load(open('/root/.vp/BASELINE.json'))['stable_pass'])
ok,bad=passed(sys.argv[1])
missing=sorted(base-ok)
print(f"faithfulness: {len(base&ok)}/{len(base)} baseline tests pass in the instrumented copy")
if missing:
    env=dict(os.environ)
    out=subprocess.run(['go','test','-json','-vet=off','-count=1','-timeout','20m','./...'],cwd=sys.argv[2],capture_output=True,text=True,env=env).stdout
    open(sys.argv[1]+'.plain','w').write(out)
    ok2,_=passed(sys.argv[1]+'.plain')
    only=[m for m in missing if m in ok2]
    if only:
        print("tests passing on the working tree but failing in the instrumented copy:")
        for m in only[:20]: print("  ",m)
        sys.exit(1)
    print(f"note: {len(missing)} baseline tests fail on the working tree itself (not an instrumentation problem)")
PY
    cat "$B/faith.log"
  fi
  # harness module file pointing at this copy
  sed "s#=> .*#=> $B/src#" "$VERIF/sim/go.mod" > "$B/harness.mod"
  cp "$REPO/go.sum" "$B/harness.sum"
  touch "$B/.instrumented"
fi

for f in $FLAVOURS; do
  case $f in
    plain) [ -x "$B/bin/simcheck" ] || ( cd "$VERIF/sim" && go build -modfile="$B/harness.mod" -o "$B/bin/simcheck" ./cmd/simcheck ) || fail "plain build failed" ;;
    race)  if [ ! -x "$B/bin/simcheck-race" ]; then
             # std sync.Pool neutralised in the race binary (DESIGN.md §4): Put drops, so no object and no
             # happens-before edge ever travels from one goroutine to another through a dependency's pool
             GOROOT_DIR=$(go env GOROOT); OV="$CACHE/overlay"; mkdir -p "$OV"
             awk '{print} /^func \(p \*Pool\) Put\(x any\) \{/ {print "\tif true {\n\t\treturn // simcheck overlay: never recycle\n\t}"}' "$GOROOT_DIR/src/sync/pool.go" > "$OV/pool.go.new"
             grep -q "simcheck overlay" "$OV/pool.go.new" || fail "sync/pool.go overlay did not apply"
             cmp -s "$OV/pool.go.new" "$OV/pool.go" 2>/dev/null || mv "$OV/pool.go.new" "$OV/pool.go"
             printf '{"Replace":{"%s":"%s"}}\n' "$GOROOT_DIR/src/sync/pool.go" "$OV/pool.go" > "$OV/overlay.json"
             ( cd "$VERIF/sim" && go build -race -overlay "$OV/overlay.json" -modfile="$B/harness.mod" -o "$B/bin/simcheck-race" ./cmd/simcheck ) || fail "race build failed"
           fi ;;
  esac
done

# Remove old builds, but never one that a check may still be using: a build is touched every time a check
# starts on it and is only removed when it is neither among the six newest nor used within the last six hours.
touch "$B/.used"
ls -1dt "$CACHE"/*/ 2>/dev/null | tail -n +7 | while read -r d; do
  [ "$d" = "$B/" ] && continue
  if [ -z "$(find "$d.used" -mmin -360 2>/dev/null)" ]; then rm -rf "$d"; fi
done
echo "$B"
