package h

import (
	"fmt"
	"os"
	"regexp"
	"sort"
	"strings"
	"time"

	"github.com/anishathalye/porcupine"
	"github.com/titpetric/vuego/simrt"
)

// C15 — a long-lived engine renders what a fresh engine would after any file edits.
//
// Sequential configuration: histories of {edit page / component / layout /
// front-matter, delete, recreate, make invalid, restore, clock step, render via
// each entry point} on one engine over the simulated fs. Every file is a list
// of immutable versions; modification times come from a tiny universe so that
// "advance", "equal" and "backwards" all occur. After every render the result
// is compared with a brand-new engine on the current files.

type c15File struct {
	name     string
	versions []FileVersion
}

func genC15(seed uint64, run int, tier string) *RunSpec {
	if run%4 == 3 {
		return genC15Conc(seed, run, tier)
	}
	r := NewRand(seed, run)
	g := NewGen(r)
	// features that would make the fair-comparison rule bite (engine reads them once at construction) stay off
	delete(g.Feat, "shorthand")
	spec := &RunSpec{Property: "C15", Family: "c15-seq", Seed: seed, Run: run}
	entries := []string{"Vue.Render", "Vue.Render", "Load.Render", "RenderFile", "Vue.RenderFragment", "RenderString"}
	cat := genPrograms(r, g, 1+r.Intn(2), false, entries)
	base := int64(1_700_000_000_000_000_000)
	gran := Pick(r, []int64{1, 1_000_000_000, 2_000_000_000})
	zeroMtime := r.Chance(8) // embed-like fs: no modification times at all
	mt := func(k int) int64 {
		if zeroMtime {
			return 0
		}
		return base + int64(k)*gran
	}
	// versions: edits change a visible marker (and sometimes the front-matter)
	var files []FileSpec
	for _, n := range g.Order {
		c := g.Files[n][0]
		f := FileSpec{Name: n, Versions: []FileVersion{{Content: c, MtimeNs: mt(0)}}}
		nv := 1 + r.Intn(3)
		if n == "theme.yml" || strings.HasPrefix(n, "data/") {
			nv = 0 // read once at engine construction: held fixed within a history (fair comparison)
		}
		for v := 1; v <= nv; v++ {
			var nc string
			kind := r.Intn(10)
			switch {
			case kind < 5: // content edit
				nc = editContent(c, fmt.Sprintf("ver%d", v))
			case kind < 6 && strings.HasPrefix(c, "---"): // front-matter only
				nc = strings.Replace(c, "---\n", fmt.Sprintf("---\nfmedit: fm-ver%d\n", v), 1)
			case kind < 7: // invalid
				nc = Pick(r, []string{"---\n: : : [\n---\n<p>broken front-matter</p>", "<template include=\"components/Nope.vuego\"></template>", "<p>{{ name | nosuchfilter }}</p>"})
			case kind < 8: // deleted
				f.Versions = append(f.Versions, FileVersion{Deleted: true, MtimeNs: mt(v)})
				continue
			default:
				nc = editContent(c, fmt.Sprintf("alt%d", v))
			}
			// mtime: mostly advancing; sometimes equal to an earlier one, going backwards, or absent (zero)
			m := mt(v)
			switch r.Intn(10) {
			case 0:
				m = mt(r.Intn(v + 1))
			case 1:
				m = mt(v) - 5*gran
			case 2:
				m = 0
			}
			f.Versions = append(f.Versions, FileVersion{Content: nc, MtimeNs: m})
		}
		files = append(files, f)
	}
	// layouts/base.vuego may appear and disappear (its existence is probed on every render)
	if g.on("layout") && !g.has("layouts/base.vuego") && r.Bool() {
		files = append(files, FileSpec{Name: "layouts/base.vuego", Initial: 0, Versions: []FileVersion{
			{Deleted: true, MtimeNs: mt(0)},
			{Content: `<html><body class="late-base"><div v-html="content"></div></body></html>`, MtimeNs: mt(1)},
		}})
	}
	// a layout of the same name NEXT TO the page (pages/<name>.vuego takes precedence over layouts/<name>.vuego):
	// it may appear and disappear too - where a layout name resolves to is decided at every render
	if g.on("layout") && r.Chance(40) {
		ln := Pick(r, []string{"post", "plain"})
		files = append(files, FileSpec{Name: "pages/" + ln + ".vuego", Initial: 0, Versions: []FileVersion{
			{Deleted: true, MtimeNs: mt(0)},
			{Content: `<div class="near-` + ln + `"><div v-html="content"></div></div>`, MtimeNs: mt(2)},
			{Deleted: true, MtimeNs: mt(3)},
		}})
	}
	spec.Files = files
	spec.Engine = randomEngine(r, g.Eng)
	spec.Engine.Components = false
	spec.Kernel = randomKernelSeq(r)
	spec.Kernel.Map.Order = "asc"
	n := 4 + r.Intn(9)
	if r.Chance(4) {
		n = 30 + r.Intn(40) // a long history: a file rendered many times between edits (anything that counts uses)
	}
	// Scenario bias (a fifth of the histories start with it): render, make the file unusable under a NEW
	// modification time (invalid content or deleted), render (fails), put back other content under the FIRST
	// modification time, render. Each step changes the mtime, so nothing here is an equal-mtime edit; what is
	// at stake is whether the failed load left the first entry behind.
	if r.Chance(20) {
		var cands []int
		for i, f := range files {
			if strings.HasPrefix(f.Name, "pages/") || strings.HasPrefix(f.Name, "layouts/") {
				cands = append(cands, i)
			}
		}
		if len(cands) > 0 {
			fi := cands[r.Intn(len(cands))]
			f := &files[fi]
			first := f.Versions[f.Initial]
			bad := FileVersion{Content: Pick(r, []string{"---\n: : : [\n---\n<p>broken front-matter</p>", "<p>{{ name | nosuchfilter }}</p>"}), MtimeNs: first.MtimeNs + 7*gran}
			if r.Chance(30) {
				bad = FileVersion{Deleted: true, MtimeNs: first.MtimeNs + 7*gran}
			}
			back := FileVersion{Content: editContent(first.Content, "restored"), MtimeNs: first.MtimeNs}
			f.Versions = append(f.Versions, bad, back)
			ib, ik := len(f.Versions)-2, len(f.Versions)-1
			spec.Files = files
			rnd := func(i int) OpSpec {
				op := Pick(r, cat)
				for tries := 0; tries < 20 && (op.Entry == "Vue.RenderFragment" || op.Entry == "RenderString"); tries++ {
					op = Pick(r, cat)
				}
				op.Data = randomData(r, fmt.Sprintf("zz%dzz", i%3))
				return op
			}
			ed := func(to int) OpSpec {
				return OpSpec{Kind: "edit", File: f.Name, To: to, Writer: WriterSpec{FailAt: -1}, Reader: ReaderSpec{FailAfter: -1}}
			}
			spec.Ops = append(spec.Ops, rnd(0), ed(ib), rnd(1), ed(ik), rnd(2))
		}
	}
	for i := 0; i < n; i++ {
		switch k := r.Intn(10); {
		case k < 4:
			f := Pick(r, files)
			spec.Ops = append(spec.Ops, OpSpec{Kind: "edit", File: f.Name, To: r.Intn(len(f.Versions)), Writer: WriterSpec{FailAt: -1}, Reader: ReaderSpec{FailAfter: -1}})
		case k < 5:
			spec.Ops = append(spec.Ops, OpSpec{Kind: "advance", Ns: int64(r.Intn(3)) * gran, Writer: WriterSpec{FailAt: -1}, Reader: ReaderSpec{FailAfter: -1}})
		default:
			op := Pick(r, cat)
			op.Data = randomData(r, fmt.Sprintf("zz%dzz", i%3))
			spec.Ops = append(spec.Ops, op)
		}
	}
	// second configuration: fs faults during renders (relaxed oracle)
	if r.Chance(25) {
		nf := 1 + r.Intn(3)
		for i := 0; i < nf; i++ {
			spec.Faults = append(spec.Faults, FaultSpec{Op: r.Intn(n), N: 1 + r.Intn(5), Kind: Pick(r, []string{"eio", "enoent", "perm", "short", "readerr"}), Arg: r.Intn(100)})
		}
	}
	spec.Note = "features=" + strings.Join(g.enabled(), ",")
	return spec
}

// editContent changes visible text of a template without changing its structure.
func editContent(c, mark string) string {
	if i := strings.Index(c, "<main"); i >= 0 {
		j := strings.Index(c[i:], ">")
		return c[:i+j+1] + "<u>" + mark + "</u>" + c[i+j+1:]
	}
	if strings.HasPrefix(c, "---") {
		if i := strings.Index(c[3:], "\n---"); i >= 0 {
			k := 3 + i + 4
			return c[:k] + "\n<u>" + mark + "</u>" + c[k:]
		}
	}
	return "<u>" + mark + "</u>" + c
}

// freshFiles: the file set with every file's Initial set to the given current versions.
func freshFiles(files []FileSpec, cur map[string]int) []FileSpec {
	out := make([]FileSpec, len(files))
	for i, f := range files {
		out[i] = f
		if v, ok := cur[f.Name]; ok {
			out[i].Initial = v
		}
	}
	return out
}

func execC15(spec *RunSpec) *Result {
	if spec.Family == "c15-conc" || spec.Family == "c11-via-c15-conc" {
		return execC15Conc(spec)
	}
	res := &Result{Run: spec.Run}
	simrt.ResetGlobals()
	sfs := NewSimFS(spec.Files, nil, spec.Faults)
	simrt.Begin(spec.Kernel)
	eng := NewEngine(spec.Engine, sfs)
	cur := map[string]int{}
	for _, f := range spec.Files {
		cur[f.Name] = f.Initial
	}
	fileIdx := map[string]int{}
	for i, f := range spec.Files {
		fileIdx[f.Name] = i
	}
	// What the engine's template cache can know about a file: only pages and layouts go through the cached path
	// (Vue.Render, directly or from Template.Render and the layout chain). Per such file: the mtime the cached
	// path saw most recently and the content version it loaded most recently.
	type cacheView struct {
		seenMtime int64
		loaded    map[int]bool // content versions read (by any path of that engine) while the cache kept seeing seenMtime
		has       bool
		// alt: states the cache may ALSO still be in. A render that failed may have ended before the layout chain
		// consulted the cache for a layout (the default-layout probe and the layout path resolution Stat files
		// without going through it), so after a failed render the earlier state of a layout stays possible.
		alt []cacheView
	}
	// The harness engine holds two engines with separate template caches: the *Vue used by Vue.Render and the
	// one inside the base Template (Load.Render, RenderFile, layout chain). The view is kept per cache.
	views := map[string]map[string]*cacheView{"vue": {}, "tpl": {}}
	cacheOf := func(entry string) string {
		if strings.HasPrefix(entry, "Vue.") { // Vue.Render, Vue.RenderFragment, Vue.RenderNodes: the *Vue engine
			return "vue"
		}
		return "tpl"
	}
	loaded := map[string]map[int64]map[int]bool{} // coverage classification only
	// Entry points that consult the template cache today: what they observe of a page or layout is certainly known
	// to the cache. What the other entry points (and any entry point for components and side files) observe may or
	// may not reach a cache - today it does not; an engine that served them from a cache would be within the statement
	// too - so after such an observation the earlier states stay possible next to the new one.
	cachedPath := func(entry string) bool {
		switch entry {
		case "Vue.Render", "Load.Render", "RenderFile", "Base.RenderFile", "Base.Load.Render":
			return true
		}
		return false
	}
	type pending struct {
		i   int
		op  OpSpec
		out Outcome
		cur map[string]int
		amb map[string][]int
		flt bool
	}
	var checks []pending
	for i, op := range spec.Ops {
		switch op.Kind {
		case "edit":
			sfs.SetVersion(op.File, op.To)
			cur[op.File] = op.To
			res.Cover = append(res.Cover, editClass(spec, op, loaded))
		case "advance":
			simrt.Advance(op.Ns)
		default:
			out := eng.Exec(i, op, nil)
			// Equal-mtime edit as the cache sees it: the file's current mtime is the one the cached path saw most
			// recently, but the content differs from what it loaded then (this includes filesystems without
			// mtimes: zero equals zero). Only then is the freshness claim void. An mtime the cache has seen
			// change - also through a failed load - is a change it must notice.
			amb := map[string][]int{}
			view := views[cacheOf(op.Entry)]
			for name, v := range cur {
				fv := spec.Files[fileIdx[name]].Versions[v]
				cv := view[name]
				if fv.Deleted || cv == nil || !cv.has {
					continue
				}
				for _, st := range append([]cacheView{*cv}, cv.alt...) {
					if fv.MtimeNs == st.seenMtime {
						for u := range st.loaded {
							if u != v {
								amb[name] = append(amb[name], u)
							}
						}
					}
				}
			}
			if os.Getenv("SIM_DEBUG") != "" {
				fmt.Fprintf(os.Stderr, "op %d %s %s -> %s\n", i, op.Entry, op.File, out)
				for name, cv := range view {
					fmt.Fprintf(os.Stderr, "op %d %s: view[%s]=%+v cur=%d amb=%v reads=%d observed=%v\n", i, op.Entry, name, *cv, cur[name], amb[name], sfs.Reads(i, name), sfs.Observed(i)[name])
				}
			}
			snap := map[string]int{}
			for k, v := range cur {
				snap[k] = v
			}
			checks = append(checks, pending{i: i, op: op, out: out, cur: snap, amb: amb, flt: sfs.Faulted(i)})
			// update the engine's view of every file this operation looked at, on every entry point. Today only
			// pages and layouts on some entry points go through the template cache; components, side files and
			// RenderFragment read afresh - but the statement excludes equal-mtime edits of ANY file from the freshness
			// claim (an engine that cached components, or served RenderFragment from the cache, would be within it).
			{
				for name, mask := range sfs.Observed(i) {
					for v := 0; v < 32; v++ {
						if mask&(1<<uint(v)) != 0 {
							if view[name] == nil {
								view[name] = &cacheView{}
							}
							m := spec.Files[fileIdx[name]].Versions[v].MtimeNs
							cv := view[name]
							// every state the cache may have been in for this file before the operation
							var prior []cacheView
							if cv.has {
								main := *cv
								main.alt = nil
								prior = append(append(prior, main), cv.alt...)
							}
							certain := cachedPath(op.Entry) && (name == op.File || strings.HasPrefix(name, "layouts/"))
							uncertain := !certain || (out.IsErr && name != op.File) // see cacheView.alt
							next := cacheView{seenMtime: m, loaded: map[int]bool{}, has: true}
							for _, st := range prior {
								if st.seenMtime == m {
									// a state in which the cache kept seeing this mtime: what was read under it stays relevant
									for u := range st.loaded {
										next.loaded[u] = true
									}
								} else if uncertain {
									// the render failed, perhaps before the chain consulted the cache for this layout:
									// the earlier state stays possible
									next.alt = append(next.alt, st)
								}
							}
							if sfs.Reads(i, name) > 0 {
								next.loaded[v] = true
							}
							*cv = next

						}
					}
				}
			}
			// record what this operation read
			for name, mask := range sfs.Observed(i) {
				if sfs.Reads(i, name) == 0 {
					continue
				}
				for v := 0; v < 32; v++ {
					if mask&(1<<uint(v)) != 0 {
						m := spec.Files[fileIdx[name]].Versions[v].MtimeNs
						if loaded[name] == nil {
							loaded[name] = map[int64]map[int]bool{}
						}
						if loaded[name][m] == nil {
							loaded[name][m] = map[int]bool{}
						}
						loaded[name][m][v] = true
					}
				}
			}
			// cache probes
			if op.File != "" {
				reads := sfs.Reads(i, op.File)
				switch op.Entry {
				case "Vue.Render":
					if reads == 0 && !out.IsErr {
						res.addStat("cache_hits", 1)
					} else if reads > 0 {
						res.addStat("cache_loads", 1)
					}
				case "Load.Render", "RenderFile":
					if reads == 1 && !out.IsErr {
						res.addStat("cache_hits", 1)
					} else if reads > 1 {
						res.addStat("cache_loads", 1)
					}
				default:
					res.addStat("cache_bypass", 1)
				}
			}
		}
	}
	rep := simrt.End()
	res.addStat("steps", rep.Steps)
	res.addStat("clock_span_ns", rep.ClockSpanNs)
	res.addStat("cases", int64(len(spec.Ops)))
	for k, v := range sfs.Fired() {
		res.addStat("fault_fs_"+k, v)
	}
	h := hashBytes()
	for _, c := range checks {
		o := c.out
		h = hashBytes([]byte(fmt.Sprint(h)), o.Out, []byte(o.Err))
		if o.Panic != "" || o.Overrun || o.Deadlock {
			res.addStat("c11_class_events", 1)
			noteCrash(res, spec, c.i, c.op, o)
			continue
		}
		fspec := cloneSpec(spec)
		fspec.Files = freshFiles(spec.Files, c.cur)
		fspec.Faults = nil
		fresh := runAlone(fspec, c.op, refKernelWith(spec.Kernel))
		res.addStat("cases", 1)
		ok := sameOutput(o, fresh)
		if c.flt {
			// The statement says nothing about a render during which a read fails (the template language itself
			// swallows some read errors). Such a render is not compared; what the fault configuration decides is the
			// last sentence of the statement: a failed load or render leaves nothing behind that LATER renders use.
			res.addStat("faulted_renders", 1)
			ok = true
		}
		if !ok && len(c.amb) > 0 {
			// Equal-mtime edit as the cache sees it (or a filesystem without mtimes): the freshness claim is
			// void for this render, as the statement says. Nothing is demanded: the engine may even combine the
			// front-matter of one version (read directly) with the cached DOM of the other.
			res.addStat("equal_mtime_exclusions", 1)
			ok = true
		}
		if !ok {
			shape := c15Shape(spec, c.i, c.op, c.cur)
			narrowed := cloneSpec(spec)
			narrowed.Ops = narrowed.Ops[:c.i+1]
			res.violateSpec(narrowed, "C15", "stale-or-divergent", shape, "op %d (%s %s) after %s: the long-lived engine differs from a fresh engine on the current files\n  long-lived: %s\n  fresh:      %s",
				c.i, c.op.Entry, c.op.File, shape, o, fresh)
		}
		res.Cover = append(res.Cover, "render/"+c.op.Entry)
	}
	res.Cover = dedup(res.Cover)
	res.Digest = fmt.Sprintf("%x", h)
	if spec.Run%60 == 0 {
		var hist []string
		for _, op := range spec.Ops {
			switch op.Kind {
			case "edit":
				hist = append(hist, fmt.Sprintf("edit %s->v%d", op.File, op.To))
			case "advance":
				hist = append(hist, "clock")
			default:
				hist = append(hist, op.Entry+" "+op.File)
			}
		}
		res.Sample = map[string]any{"history": hist, "faults": spec.Faults}
	}
	return res
}

// refKernelWith: the reference configuration (fresh pools, ascending maps) — map order is held equal so that C10's subject cannot leak in.
func refKernelWith(k simrt.Config) simrt.Config {
	c := refKernel()
	c.Map = k.Map
	return c
}

func editClass(spec *RunSpec, op OpSpec, loaded map[string]map[int64]map[int]bool) string {
	kind := "page"
	switch {
	case strings.HasPrefix(op.File, "components/"):
		kind = "component"
	case strings.HasPrefix(op.File, "layouts/"):
		kind = "layout"
	case strings.HasPrefix(op.File, "side/"):
		kind = "side-file"
	}
	for _, f := range spec.Files {
		if f.Name == op.File {
			v := f.Versions[op.To]
			if v.Deleted {
				return "edit/" + kind + "/delete"
			}
			if strings.Contains(v.Content, "nosuchfilter") || strings.Contains(v.Content, ": : :") || strings.Contains(v.Content, "Nope.vuego") {
				return "edit/" + kind + "/invalid"
			}
			if v.MtimeNs == 0 {
				return "edit/" + kind + "/zero-mtime"
			}
			if _, seen := loaded[op.File][v.MtimeNs]; seen {
				return "edit/" + kind + "/mtime-seen-before"
			}
		}
	}
	return "edit/" + kind + "/content"
}

// c15Shape names the history shape of a violation from the cache's point of view.
func c15Shape(spec *RunSpec, i int, op OpSpec, cur map[string]int) string {
	state := "unchanged since the engine's last render of it"
	edited := false
	for j := i - 1; j >= 0; j-- {
		e := spec.Ops[j]
		if e.Kind == "edit" && e.File == op.File {
			edited = true
			for _, f := range spec.Files {
				if f.Name == e.File {
					v := f.Versions[e.To]
					switch {
					case v.Deleted:
						state = "deleted"
					case v.MtimeNs == 0:
						state = "edited (zero mtime)"
					default:
						state = "edited"
					}
				}
			}
			break
		}
		if (e.Kind == "render" || e.Kind == "") && e.File == op.File && !edited {
			break
		}
	}
	for _, f := range spec.Files {
		if f.Name == op.File && f.Versions[cur[op.File]].Deleted {
			state = "deleted"
		}
	}
	var gone []string
	for _, f := range spec.Files {
		if f.Name != op.File && f.Versions[cur[f.Name]].Deleted && f.Initial != cur[f.Name] {
			switch {
			case strings.HasPrefix(f.Name, "layouts/"):
				gone = append(gone, "a layout deleted")
			case strings.HasPrefix(f.Name, "components/"):
				gone = append(gone, "a component deleted")
			}
		}
	}
	gone = dedup(gone)
	if len(gone) > 0 {
		state += "; " + strings.Join(gone, ", ")
	}
	faultBefore := ""
	for _, f := range spec.Faults {
		if f.Op < i {
			faultBefore = ", after an earlier render hit by an fs fault"
		}
	}
	return fmt.Sprintf("%s: rendered file %s%s", op.Entry, state, faultBefore)
}

// ---------------------------------------------------------------- concurrent configuration

// genC15Conc: renderer tasks plus editor events at kernel-chosen steps (including between the Stat and the
// ReadFile of one cache validation). Every file version prints a unique marker, so each render's output says
// which version of page, component and layout it used. Equal-mtime edits are not generated: every version has
// its own mtime; a file may be flipped back to an earlier version (its old content AND old mtime).
func genC15Conc(seed uint64, run int, tier string) *RunSpec {
	r := NewRand(seed, run)
	spec := &RunSpec{Property: "C15", Family: "c15-conc", Seed: seed, Run: run}
	base := int64(1_700_000_000_000_000_000)
	mk := func(name, body string, nv int, off int64) FileSpec {
		f := FileSpec{Name: name}
		for v := 0; v < nv; v++ {
			tag := fmt.Sprintf("[[%s.v%d]]", name, v)
			f.Versions = append(f.Versions, FileVersion{Content: strings.Replace(body, "@@", tag, 1), MtimeNs: base + off + int64(v)*1_000_000_000})
		}
		return f
	}
	useLayout := r.Chance(40)
	pageBody := "<main><h1>@@</h1><p>{{ name }}</p><template include=\"components/Part.vuego\" :label=\"title\"></template></main>"
	if useLayout {
		pageBody = "---\nlayout: frame\n---\n" + pageBody
	}
	nv := 2 + r.Intn(2)
	spec.Files = []FileSpec{
		mk("pages/live.vuego", pageBody, nv, 0),
		mk("components/Part.vuego", "<section><b>@@</b><i>{{ label }}</i></section>", nv, 100),
	}
	if useLayout {
		spec.Files = append(spec.Files, mk("layouts/frame.vuego", "<div class=\"frame\"><em>@@</em><div v-html=\"content\"></div></div>", nv, 200))
	}
	ntasks := 2 + r.Intn(3)
	opsPer := 2 + r.Intn(2)
	entries := []string{"Vue.Render", "Vue.Render", "Load.Render", "RenderFile"}
	for t := 0; t < ntasks; t++ {
		for k := 0; k < opsPer; k++ {
			spec.Ops = append(spec.Ops, OpSpec{Kind: "render", Entry: Pick(r, entries), File: "pages/live.vuego", Task: t,
				Data: DataSpec{Shape: "map", Tag: fmt.Sprintf("zz%dzz", len(spec.Ops)), Items: 1}, Writer: WriterSpec{FailAt: -1}, Reader: ReaderSpec{FailAfter: -1}})
		}
	}
	horizon := 1200 * ntasks * opsPer
	ne := 1 + r.Intn(5)
	cur := map[string]int{}
	for i := 0; i < ne; i++ {
		f := Pick(r, spec.Files)
		to := r.Intn(len(f.Versions))
		if to == cur[f.Name] {
			to = (to + 1) % len(f.Versions)
		}
		cur[f.Name] = to
		e := EditEvent{Step: 1 + int64(r.Intn(horizon)), File: f.Name, To: to}
		if r.Chance(45) {
			// lands inside a window in which some task has a file's state in flight: right after the n-th access
			// (Stat / Open / Read) of the edited file itself or of another file of the set
			e.AtCall = 1 + r.Intn(14)
			if r.Chance(30) {
				e.On = Pick(r, spec.Files).Name
			}
		}
		spec.Edits = append(spec.Edits, e)
	}
	sort.SliceStable(spec.Edits, func(i, j int) bool { return spec.Edits[i].Step < spec.Edits[j].Step })
	spec.Warm = r.Chance(50)
	spec.Engine = randomEngine(r, EngineSpec{})
	spec.Engine.PathFill = 0
	spec.Kernel = simrt.Config{Sched: randomSched(r, ntasks, opsPer), Map: simrt.MapSpec{Order: "asc"}, Pool: simrt.PoolSpec{Mode: "lifo", Seed: r.U64()}, Clock: simrt.ClockSpec{TickNs: 1000}}
	spec.Note = fmt.Sprintf("tasks=%d ops/task=%d edits=%d layout=%v warm=%v", ntasks, opsPer, ne, useLayout, spec.Warm)
	return spec
}

var markerRe = regexp.MustCompile(`\[\[([^\]]+)\.v(\d+)\]\]`)

type regIn struct {
	Write bool
	File  string
	V     int
}

func execC15Conc(spec *RunSpec) *Result {
	res := &Result{Run: spec.Run}
	cr := runConcurrent(spec, false)
	rep := cr.rep
	res.addStat("cases", int64(len(spec.Ops)))
	res.addStat("steps", rep.Steps)
	res.addStat("clock_span_ns", rep.ClockSpanNs)
	res.addStat("task_switches", int64(len(rep.Switches)))
	res.Switches = rep.Switches
	// history: edits are writes, every (render, file) marker is a read; stamped with the kernel's step counter
	var ops []porcupine.Operation
	final := map[string]int{}
	initial := map[string]int{}
	for _, f := range spec.Files {
		initial[f.Name] = f.Initial
		final[f.Name] = f.Initial
	}
	lastEdit := int64(0)
	lastStamp := int64(0)
	for i := range spec.Ops {
		if cr.stamps[i][1] > lastStamp {
			lastStamp = cr.stamps[i][1]
		}
	}
	effective := cr.fs.EffectiveEdits()
	res.addStat("edits_fired_by_access", 0)
	for _, e := range effective {
		if e.Step > lastStamp {
			continue // never took effect while tasks ran
		}
		if e.AtCall > 0 {
			res.addStat("edits_fired_by_access", 1)
		}
		ops = append(ops, porcupine.Operation{ClientId: 0, Input: regIn{Write: true, File: e.File, V: e.To}, Call: e.Step*2 - 1, Output: e.To, Return: e.Step * 2})
		final[e.File] = e.To
		if e.Step > lastEdit {
			lastEdit = e.Step
		}
	}
	h := hashBytes([]byte(fmt.Sprint(rep.SchedHash)))
	reads := 0
	for i, op := range spec.Ops {
		o := cr.outs[i]
		h = hashBytes([]byte(fmt.Sprint(h)), o.Out, []byte(o.Err))
		if o.Panic != "" || o.Overrun || o.Deadlock {
			noteCrash(res, spec, i, op, o)
			continue
		}
		if o.IsErr {
			// All versions of all files are valid templates, so a render that overlaps no edit cannot fail. One that
			// does overlap an edit may be told so (an engine may refuse a file that changed while it was being
			// loaded - a fresh engine hitting the same window would do the same): not judged.
			overlaps := false
			for _, e := range effective {
				if e.Step >= cr.stamps[i][0] && e.Step <= cr.stamps[i][1] {
					overlaps = true
				}
			}
			if overlaps {
				res.addStat("errors_during_an_edit", 1)
			} else {
				res.violate("C15", "unexpected-error", "render error with no edit under way ("+op.Entry+")", "op %d: %s", i, o.Err)
			}
			continue
		}
		seen := map[string]bool{}
		for _, m := range markerRe.FindAllStringSubmatch(string(o.Out), -1) {
			key := m[1] + "#" + m[2]
			if seen[key] {
				continue
			}
			seen[key] = true
			v := 0
			fmt.Sscanf(m[2], "%d", &v)
			ops = append(ops, porcupine.Operation{ClientId: 1 + op.Task, Input: regIn{File: m[1]}, Call: cr.stamps[i][0] * 2, Output: v, Return: cr.stamps[i][1]*2 + 1})
			reads++
		}
	}
	res.addStat("history_reads", int64(reads))
	model := porcupine.Model{
		Partition: func(history []porcupine.Operation) [][]porcupine.Operation {
			by := map[string][]porcupine.Operation{}
			var names []string
			for _, o := range history {
				f := o.Input.(regIn).File
				if _, ok := by[f]; !ok {
					names = append(names, f)
				}
				by[f] = append(by[f], o)
			}
			sort.Strings(names)
			var out [][]porcupine.Operation
			for _, n := range names {
				out = append(out, by[n])
			}
			return out
		},
		Init: func() interface{} { return -1 }, // -1: the initial version of whatever file this partition is about
		Step: func(state, input, output interface{}) (bool, interface{}) {
			in := input.(regIn)
			st := state.(int)
			if st == -1 {
				st = initial[in.File]
			}
			if in.Write {
				return true, in.V
			}
			return output.(int) == st, st
		},
		Equal: func(a, b interface{}) bool { return a == b },
	}
	if len(ops) > 0 && len(ops) <= 60 {
		switch porcupine.CheckOperationsTimeout(model, ops, 20*time.Second) {
		case porcupine.Illegal:
			res.violate("C15", "stale-read", "a render used a file version that had been overwritten before the call began (concurrent edits)",
				"the history of %d reads and %d edits is not linearizable against a register per file: some render returned a version that was no longer current at any moment of the call\n  %s", reads, len(ops)-reads, describeHistory(ops))
		case porcupine.Unknown:
			res.addStat("linearizability_inconclusive", 1)
		default:
			res.addStat("linearizable_histories", 1)
		}
	}
	// bounded liveness of invalidation: after the last edit, one more render equals a fresh engine
	simrt.Begin(spec.Kernel)
	for k, entry := range []string{"Vue.Render", "Load.Render"} {
		p := OpSpec{Kind: "render", Entry: entry, File: "pages/live.vuego", Data: DataSpec{Shape: "map", Tag: "zzpzz", Items: 1}, Writer: WriterSpec{FailAt: -1}, Reader: ReaderSpec{FailAfter: -1}}
		for name, v := range final {
			cr.fs.SetVersion(name, v)
		}
		cr.fs.DropEdits()
		got := cr.eng.Exec(maxOps-3-k, p, nil)
		fspec := cloneSpec(spec)
		fspec.Files = freshFiles(spec.Files, final)
		fspec.Edits = nil
		simrt.End()
		fresh := runAlone(fspec, p, refKernel())
		simrt.Begin(spec.Kernel)
		res.addStat("cases", 2)
		if !sameOutput(got, fresh) {
			res.violate("C15", "stale-after-edits", "after concurrent edits stopped the engine still renders an overwritten version ("+entry+")",
				"after the last edit a sequential %s of the page differs from a fresh engine on the final files:\n  long-lived: %s\n  fresh:      %s", entry, got, fresh)
		}
	}
	simrt.End()
	res.Cover = append(res.Cover, "conc/"+spec.Kernel.Sched.Strategy, fmt.Sprintf("conc/edits=%d", len(spec.Edits)), fmt.Sprintf("interleaving/%x", rep.SchedHash))
	if res.Stats["history_reads"] > 0 && lastEdit > 0 {
		res.Cover = append(res.Cover, "probe/edit-while-tasks-run")
	}
	for i := range spec.Ops {
		if _, single := observedSnapshot(cr.fs, i); !single {
			res.Cover = append(res.Cover, "probe/edit-landed-mid-render")
			break
		}
	}
	res.Digest = fmt.Sprintf("%x", h)
	if spec.Run%80 == 3 {
		res.Sample = map[string]any{"note": spec.Note, "edits": spec.Edits, "history_events": len(ops)}
	}
	return res
}

func describeHistory(ops []porcupine.Operation) string {
	var parts []string
	sorted := append([]porcupine.Operation(nil), ops...)
	sort.Slice(sorted, func(i, j int) bool { return sorted[i].Call < sorted[j].Call })
	for _, o := range sorted {
		in := o.Input.(regIn)
		if in.Write {
			parts = append(parts, fmt.Sprintf("edit %s->v%d @%d", in.File, in.V, o.Return/2))
		} else {
			parts = append(parts, fmt.Sprintf("task%d read %s=v%d [%d,%d]", o.ClientId-1, in.File, o.Output.(int), o.Call/2, o.Return/2))
		}
	}
	return strings.Join(parts, "; ")
}
