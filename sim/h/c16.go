package h

import (
	"fmt"
	"sort"
	"strings"

	"github.com/titpetric/vuego/simrt"
)

// C16 — v-once emits each marked element exactly once per render, independently.
//
// The generator places uniquely marked v-once elements (top level, in loops,
// on the loop element, in components included n times, in different
// components, in layouts, in a component used by page and layout) and computes
// from its own knowledge of loop lengths and conditions how often each marker
// must occur in the output (a small model of the statement). Histories render
// the pages repeatedly and interleaved, through every entry point, under
// frozen / coarse / jumping clocks.

type c16Page struct {
	name    string
	body    string
	fm      map[string]string
	markers map[string]func(items int, flag bool) int // marker -> expected count
	layout  bool
	slots   bool
	kinds   map[string]string
	selfInc bool // the page includes itself (bounded by a level variable): only file-backed entry points are judged
}

func genC16Page(r *Rand, g *Gen, idx int) *c16Page {
	p := &c16Page{name: fmt.Sprintf("pages/o%d.vuego", idx), fm: map[string]string{}, markers: map[string]func(int, bool) int{}, kinds: map[string]string{}}
	mk := func() string { return g.onceMarker() }
	min1 := func(k int) int {
		if k > 0 {
			return 1
		}
		return 0
	}
	var parts []string
	n := 1 + r.Intn(4)
	wide := r.Chance(5)
	if wide {
		n = 12 + r.Intn(8) // many v-once siblings: positions past one digit
	}
	tags := []string{"span", "b", "p", "style", "em"}
	for i := 0; i < n; i++ {
		tag := Pick(r, tags)
		before := map[string]bool{}
		for m := range p.markers {
			before[m] = true
		}
		which := r.Intn(27)
		if wide {
			which = Pick(r, []int{0, 0, 0, 1, 4, 7}) // simple placements, side by side under one parent
		}
		kindNames := []string{"page top level", "loop body", "component included k times", "two components", "side by side", "unreachable branch", "component inside a loop",
			"on the loop element", "component reached directly and through a wrapper", "nested loops", "shorthand component tag", "component with <template> root", "v-if branch taken",
			"slot content, component used twice", "same-name components in different directories", "else-branch inside a loop", "v-once on the <template> root of a component",
			"default slot content placed at two outlets", "v-else after an empty loop inside a loop",
			"named slot content placed at two outlets", "named slot content placed in a loop",
			"<template v-else v-once> inside a loop", "v-once elements nested in a v-once ancestor",
			"v-once head of an if-chain with its else-branch, inside a loop", "v-once with a v-if that is false at the first instantiation (loop)",
			"v-once with a v-if that is false at the first include of its component", "v-once together with v-pre, inside a loop"}
		switch which {
		case 26: // v-pre switches off interpolation and directives inside the element, not the v-once rule for the element
			m := mk()
			pt := Pick(r, []string{"script", "pre", "code"})
			parts = append(parts, fmt.Sprintf(`<div v-for="item in items"><%s v-once v-pre>%s {{ raw }}</%s><i>{{ item.id }}</i></div>`, pt, m, pt))
			p.markers[m] = func(items int, _ bool) int { return min1(items) }
		case 23: // the head of an if-chain carries v-once: once it has been emitted, later iterations must still reach the else-branch
			ma, mb := mk(), mk()
			if r.Bool() {
				// else-branch with its own v-once: emitted once, at the first iteration that takes it
				parts = append(parts, fmt.Sprintf(`<div v-for="(i, item) in items"><%s v-if="i == 0" v-once>%s</%s><%s %s v-once>%s</%s></div>`, tag, ma, tag, tag, Pick(r, []string{"v-else", `v-else-if="i > 0"`}), mb, tag))
				p.markers[mb] = func(items int, _ bool) int { return min1(items - 1) }
			} else {
				// plain else-branch: emitted at every iteration that takes it
				parts = append(parts, fmt.Sprintf(`<div v-for="(i, item) in items"><%s v-if="i == 0" v-once>%s</%s><%s v-else>%s</%s></div>`, tag, ma, tag, tag, mb, tag))
				p.markers[mb] = func(items int, _ bool) int {
					if items > 1 {
						return items - 1
					}
					return 0
				}
			}
			p.markers[ma] = func(items int, _ bool) int { return min1(items) }
		case 24: // not emitted at its first instantiation (v-if false there): it must be emitted at the first one that reaches it
			m := mk()
			parts = append(parts, fmt.Sprintf(`<div v-for="(i, item) in items"><%s v-once v-if="i >= 1">%s</%s></div>`, tag, m, tag))
			p.markers[m] = func(items int, _ bool) int { return min1(items - 1) }
		case 25: // the same through repeated includes of a component
			m := mk()
			comp := fmt.Sprintf("components/Once%s.vuego", m)
			g.put(comp, fmt.Sprintf(`<div class="oi"><%s v-once v-if="show">%s</%s><u>x</u></div>`, tag, m, tag))
			parts = append(parts, fmt.Sprintf(`<template include="%s"></template><template include="%s" show="1"></template><template include="%s" show="1"></template>`, comp, comp, comp))
			p.markers[m] = func(int, bool) int { return 1 }
		case 21: // a <template> else-branch carrying v-once, taken at every iteration
			m := mk()
			parts = append(parts, fmt.Sprintf(`<div v-for="item in items"><p v-if="off">never</p><template %s v-once><%s>%s</%s></template></div>`, Pick(r, []string{"v-else", `v-else-if="!off"`}), tag, m, tag))
			p.markers[m] = func(items int, _ bool) int { return min1(items) }
		case 22: // distinct v-once elements inside a v-once ancestor
			ma, mb, mc := mk(), mk(), mk()
			parts = append(parts, fmt.Sprintf(`<section v-once><h6>%s</h6><b v-once>%s</b><i v-once>%s</i></section>`, ma, mb, mc))
			p.markers[ma] = func(int, bool) int { return 1 }
			p.markers[mb] = func(int, bool) int { return 1 }
			p.markers[mc] = func(int, bool) int { return 1 }
		case 19: // v-once inside named slot content that the component places at two outlets
			m := mk()
			g.put("components/TwoNamed.vuego", `<div class="twon"><slot name="x"></slot><p>mid</p><slot name="x"></slot></div>`)
			parts = append(parts, fmt.Sprintf(`<template include="components/TwoNamed.vuego"><template #x><%s v-once>%s</%s><i>after</i></template></template>`, tag, m, tag))
			p.markers[m] = func(int, bool) int { return 1 }
		case 20: // ... places inside a loop
			m := mk()
			g.put("components/LoopNamed.vuego", `<ul class="loopn"><li v-for="item in items"><slot name="x"></slot></li></ul>`)
			parts = append(parts, fmt.Sprintf(`<template include="components/LoopNamed.vuego" :items="items"><template #x><%s v-once>%s</%s></template></template>`, tag, m, tag))
			p.markers[m] = func(items int, _ bool) int { return min1(items) }
		case 15: // v-once on the taken else-branch, inside a loop
			m := mk()
			parts = append(parts, fmt.Sprintf(`<div v-for="item in items"><p v-if="off">never</p><%s %s v-once>%s</%s></div>`, tag, Pick(r, []string{"v-else", `v-else-if="!off"`}), m, tag))
			p.markers[m] = func(items int, _ bool) int { return min1(items) }
		case 16: // v-once on the <template> root of a component included k times
			m := mk()
			comp := fmt.Sprintf("components/Once%s.vuego", m)
			g.put(comp, fmt.Sprintf(`<template v-once><%s>%s</%s></template>`, tag, m, tag))
			k := 1 + r.Intn(3)
			for j := 0; j < k; j++ {
				parts = append(parts, fmt.Sprintf(`<template include="%s"></template>`, comp))
			}
			p.markers[m] = func(int, bool) int { return 1 }
		case 17: // v-once inside default slot content that the component places at two outlets
			m := mk()
			g.put("components/TwoOutlets.vuego", `<div class="two"><slot></slot><p><slot></slot></p></div>`)
			parts = append(parts, fmt.Sprintf(`<template include="components/TwoOutlets.vuego"><%s v-once>%s</%s></template>`, tag, m, tag))
			p.markers[m] = func(int, bool) int { return 1 }
		case 18: // v-once in a v-else after an empty loop, reached from an outer loop
			m := mk()
			parts = append(parts, fmt.Sprintf(`<div v-for="item in items"><i v-for="x in empty">x</i><%s v-else v-once>%s</%s></div>`, tag, m, tag))
			p.markers[m] = func(items int, _ bool) int { return min1(items) }
		case 14: // two different components with the same file name in different directories
			ma, mb := mk(), mk()
			ca, cb := fmt.Sprintf("components/shop%s/Card.vuego", ma), fmt.Sprintf("components/blog%s/Card.vuego", ma)
			g.put(ca, fmt.Sprintf(`<%s v-once>%s</%s>`, tag, ma, tag))
			g.put(cb, fmt.Sprintf(`<%s v-once>%s</%s>`, tag, mb, tag))
			parts = append(parts, fmt.Sprintf(`<template include="%s"></template>`, ca), fmt.Sprintf(`<template include="%s"></template>`, cb))
			p.markers[ma] = func(int, bool) int { return 1 }
			p.markers[mb] = func(int, bool) int { return 1 }
		case 11: // component whose root is a <template> wrapper (with :required), included k times
			m := mk()
			comp := fmt.Sprintf("components/Once%s.vuego", m)
			g.put(comp, fmt.Sprintf(`<template :required="label"><div class="wrapped"><%s v-once>%s</%s><u>{{ label }}</u></div></template>`, tag, m, tag))
			k := 1 + r.Intn(3)
			for j := 0; j < k; j++ {
				parts = append(parts, fmt.Sprintf(`<template include="%s" label="use%d"></template>`, comp, j))
			}
			p.markers[m] = func(int, bool) int { return 1 }
		case 12: // v-once element that is also the v-if branch taken
			m := mk()
			parts = append(parts, fmt.Sprintf(`<%s v-if="flag" v-once>%s</%s><%s v-else>no</%s>`, tag, m, tag, tag, tag))
			p.markers[m] = func(_ int, flag bool) int {
				if flag {
					return 1
				}
				return 0
			}
		case 13: // v-once inside slot content handed to a component that is used twice
			m := mk()
			g.put("components/SlotHost.vuego", `<div class="host"><slot></slot></div>`)
			parts = append(parts, fmt.Sprintf(`<template include="components/SlotHost.vuego"><%s v-once>%s</%s></template>`, tag, m, tag), `<template include="components/SlotHost.vuego"><i>other</i></template>`)
			p.markers[m] = func(int, bool) int { return 1 }
		case 0: // top level
			m := mk()
			parts = append(parts, fmt.Sprintf(`<%s v-once>%s</%s>`, tag, m, tag))
			p.markers[m] = func(int, bool) int { return 1 }
		case 1: // inside a loop body
			m := mk()
			parts = append(parts, fmt.Sprintf(`<div v-for="item in items"><%s v-once>%s</%s><i>{{ item.id }}</i></div>`, tag, m, tag))
			p.markers[m] = func(items int, _ bool) int { return min1(items) }
		case 2: // a component included k times
			m := mk()
			comp := fmt.Sprintf("components/Once%s.vuego", m)
			g.put(comp, fmt.Sprintf(`<div class="oc"><%s v-once>%s</%s><u>{{ label }}</u></div>`, tag, m, tag))
			k := 1 + r.Intn(3)
			for j := 0; j < k; j++ {
				parts = append(parts, fmt.Sprintf(`<template include="%s" label="use%d"></template>`, comp, j))
			}
			p.markers[m] = func(int, bool) int { return 1 }
		case 3: // two different components, each with its own v-once
			ma, mb := mk(), mk()
			ca, cb := fmt.Sprintf("components/Once%s.vuego", ma), fmt.Sprintf("components/Once%s.vuego", mb)
			g.put(ca, fmt.Sprintf(`<%s v-once>%s</%s>`, tag, ma, tag))
			g.put(cb, fmt.Sprintf(`<%s v-once>%s</%s>`, tag, mb, tag))
			parts = append(parts, fmt.Sprintf(`<template include="%s"></template>`, ca), fmt.Sprintf(`<template include="%s"></template>`, cb))
			p.markers[ma] = func(int, bool) int { return 1 }
			p.markers[mb] = func(int, bool) int { return 1 }
		case 4: // two distinct elements side by side
			ma, mb := mk(), mk()
			parts = append(parts, fmt.Sprintf(`<%s v-once>%s</%s><%s v-once>%s</%s>`, tag, ma, tag, tag, mb, tag))
			p.markers[ma] = func(int, bool) int { return 1 }
			p.markers[mb] = func(int, bool) int { return 1 }
		case 5: // unreachable branch
			m := mk()
			parts = append(parts, fmt.Sprintf(`<div v-if="flag"><%s v-once>%s</%s></div>`, tag, m, tag))
			p.markers[m] = func(_ int, flag bool) int {
				if flag {
					return 1
				}
				return 0
			}
		case 6: // component included from inside a loop
			m := mk()
			comp := fmt.Sprintf("components/Once%s.vuego", m)
			g.put(comp, fmt.Sprintf(`<%s v-once>%s</%s><u>{{ label }}</u>`, tag, m, tag))
			parts = append(parts, fmt.Sprintf(`<div v-for="item in items"><template include="%s" :label="item.label"></template></div>`, comp))
			p.markers[m] = func(items int, _ bool) int { return min1(items) }
		case 7: // v-once on the loop element itself
			m := mk()
			parts = append(parts, fmt.Sprintf(`<ul><li v-for="item in items" v-once>%s</li></ul>`, m))
			p.markers[m] = func(items int, _ bool) int { return min1(items) }
		case 8: // component reached directly and through another component
			m := mk()
			inner := fmt.Sprintf("components/Once%s.vuego", m)
			outer := fmt.Sprintf("components/Wrap%s.vuego", m)
			g.put(inner, fmt.Sprintf(`<%s v-once>%s</%s>`, tag, m, tag))
			g.put(outer, fmt.Sprintf(`<div class="wrap"><template include="%s"></template></div>`, inner))
			parts = append(parts, fmt.Sprintf(`<template include="%s"></template>`, outer), fmt.Sprintf(`<template include="%s"></template>`, inner))
			p.markers[m] = func(int, bool) int { return 1 }
		case 9: // nested loops
			m := mk()
			parts = append(parts, fmt.Sprintf(`<div v-for="item in items"><span v-for="t in item.tags"><%s v-once>%s</%s></span></div>`, tag, m, tag))
			p.markers[m] = func(items int, _ bool) int { return min1(items) }
		case 10: // shorthand component tag with v-once inside
			m := mk()
			comp := fmt.Sprintf("components/Sh%s.vuego", strings.ToLower(m))
			g.Eng.Components = true
			g.put(comp, fmt.Sprintf(`<%s v-once>%s</%s><slot></slot>`, tag, m, tag))
			tagName := "sh" + strings.ToLower(m)
			parts = append(parts, fmt.Sprintf(`<%s>a</%s><%s>b</%s>`, tagName, tagName, tagName, tagName))
			p.markers[m] = func(int, bool) int { return 1 }
		}
		for m := range p.markers {
			if !before[m] {
				p.kinds[m] = kindNames[which]
			}
		}
		if r.Chance(40) {
			parts = append(parts, g.snippetPlain())
		}
	}
	if r.Chance(3) {
		// more v-once elements in one template than fit a byte-sized counter
		var many []string
		for k := 0; k < 300; k++ {
			m := mk()
			many = append(many, fmt.Sprintf(`<b v-once>%s</b>`, m))
			p.markers[m] = func(int, bool) int { return 1 }
			p.kinds[m] = "one of 300 v-once elements in one template"
		}
		parts = append(parts, `<div class="many">`+strings.Join(many, "")+`</div>`)
	}
	p.body = "<main>\n" + strings.Join(parts, "\n") + "\n</main>\n"
	if r.Chance(12) {
		// attribute names are case-insensitive in HTML: V-ONCE is v-once (in the page and in the components made so far)
		sp := Pick(r, []string{" V-ONCE", " v-Once"})
		p.body = strings.ReplaceAll(p.body, " v-once", sp)
		for name, vs := range g.Files {
			if strings.HasPrefix(name, "components/") {
				vs[0] = strings.ReplaceAll(vs[0], " v-once", sp)
			}
		}
	}
	return p
}

// snippetPlain: filler without v-once, includes or anything that could fail.
func (g *Gen) snippetPlain() string {
	return Pick(g.R, []string{`<h1>{{ title }}</h1>`, `<p v-if="flag">f</p><p v-else>nf</p>`, `<ul><li v-for="item in items">{{ item.label }}</li></ul>`, `<a :href="href" :title="title">{{ name | upper }}</a>`})
}

func genC16(seed uint64, run int, tier string) *RunSpec {
	r := NewRand(seed, run)
	g := NewGen(r)
	g.Feat = map[string]bool{}
	spec := &RunSpec{Property: "C16", Family: "c16-history", Seed: seed, Run: run}
	np := 1 + r.Intn(2)
	var pages []*c16Page
	for i := 0; i < np; i++ {
		pages = append(pages, genC16Page(r, g, i))
	}
	if r.Chance(20) {
		// a page that includes itself, bounded by a level variable: the entry-level instantiation and the included
		// ones are instantiations of the same elements of the same file
		p := &c16Page{name: fmt.Sprintf("pages/tree%d.vuego", len(pages)), fm: map[string]string{}, markers: map[string]func(int, bool) int{}, kinds: map[string]string{}, selfInc: true}
		m := g.onceMarker()
		p.body = fmt.Sprintf(`<ul class="tree"><style v-once>.%s{}</style><li>level {{ lvl }}</li><li v-if="(lvl ?? 0) < %d"><template include="%s" :lvl="(lvl ?? 0) + 1"></template></li></ul>`+"\n", m, 1+r.Intn(3), p.name)
		p.markers[m] = func(int, bool) int { return 1 }
		p.kinds[m] = "page that includes itself"
		pages = append(pages, p)
	}
	// layouts: optional; a layout may hold its own v-once element and share a component with the page
	layoutMarkers := map[string]func(int, bool) int{}
	var slotMarkers []string
	directSlots := false
	useLayout := r.Chance(40)
	if useLayout {
		lm := g.onceMarker()
		shared := ""
		if r.Bool() {
			sm := g.onceMarker()
			shared = fmt.Sprintf("components/Shared%s.vuego", sm)
			g.put(shared, fmt.Sprintf(`<b v-once>%s</b>`, sm))
			// the page includes it too (added below); page render emits it once, layout render emits it once
			layoutMarkers[sm] = func(int, bool) int { return 2 }
		}
		lay := fmt.Sprintf(`<section class="lay"><em v-once>%s</em><em v-once>%sX</em>`, lm, lm)
		if r.Chance(30) {
			// the layout itself places one of the page's named slots, twice
			lay += `<slot name="head"></slot><slot name="head"></slot>`
			slotMarkers = []string{g.onceMarker(), g.onceMarker()}
			directSlots = true
		} else if r.Bool() {
			// the page's named slots (each with its own v-once element) are placed by a component of the layout
			g.put("components/Frame.vuego", `<div class="frame"><header><slot name="head"></slot></header><footer><slot name="foot"></slot></footer></div>`)
			lay += `<template include="components/Frame.vuego"></template>`
			slotMarkers = []string{g.onceMarker(), g.onceMarker()}
		}
		if shared != "" {
			lay += fmt.Sprintf(`<template include="%s"></template><template include="%s"></template>`, shared, shared)
		}
		lay += `<div v-html="content"></div></section>`
		g.put("layouts/once.vuego", lay)
		layoutMarkers[lm] = func(int, bool) int { return 1 }
		layoutMarkers[lm+"X"] = func(int, bool) int { return 1 }
		for _, p := range pages {
			if r.Chance(70) && !p.selfInc {
				p.layout = true
				p.fm["layout"] = "once"
				if shared != "" {
					p.body = strings.Replace(p.body, "</main>", fmt.Sprintf(`<template include="%s"></template></main>`, shared), 1)
				}
				if len(slotMarkers) == 2 {
					p.body += fmt.Sprintf(`<template #head><b v-once>%s</b></template><template #foot><i v-once>%s</i></template>`, slotMarkers[0], slotMarkers[1])
					p.slots = true
				}
			}
		}
	}
	for _, p := range pages {
		g.put(p.name, PageFile(p.body, p.fm))
	}
	// a page that admits v-once elements (its own and a component's) and then fails: renders of it are part of
	// the histories, and what it admitted must not count for the renders after it ("every render starts afresh")
	failName := ""
	if r.Chance(40) && len(pages) > 0 {
		failName = "pages/ofail.vuego"
		g.put(failName, strings.Replace(pages[0].body, "</main>", `<p>{{ name | nosuchfilter }}</p></main>`, 1))
	}
	spec.Files = g.FileSpecs(1_700_000_000_000_000_000)
	spec.Engine = randomEngine(r, g.Eng)
	spec.Engine.BaseFill = &DataSpec{Shape: "map", Tag: "zzbzz", Items: r.Intn(4), Flag: r.Bool(), Variant: 1}
	spec.Kernel = randomKernelSeq(r)
	spec.Kernel.Map.Order = "asc"
	n := 2 + r.Intn(5)
	for i := 0; i < n; i++ {
		if failName != "" && r.Chance(30) {
			e := Pick(r, []string{"Vue.Render", "Load.Render", "RenderString", "Vue.RenderFragment", "Base.RenderString"})
			op := OpSpec{Kind: "render", Entry: e, File: failName, Data: DataSpec{Shape: "map", Tag: fmt.Sprintf("zz%dzz", i), Items: r.Intn(4), Flag: true}, Writer: WriterSpec{FailAt: -1}, Reader: ReaderSpec{FailAfter: -1}, Expect: &Expect{Markers: map[string]int{"must-fail": 1}}}
			if e == "RenderString" || e == "Base.RenderString" {
				op.Source = g.Files[failName][0]
			}
			spec.Ops = append(spec.Ops, op)
			continue
		}
		p := Pick(r, pages)
		entry := Pick(r, append(append([]string{}, Entries...), BaseEntries...))
		d := DataSpec{Shape: Pick(r, []string{"map", "map", "struct"}), Tag: fmt.Sprintf("zz%dzz", i), Items: r.Intn(4), Flag: r.Bool(), Variant: r.Intn(3)}
		if strings.HasPrefix(entry, "Base.") {
			// rendered straight on the shared base template: the data is what the base template was filled with
			d = *spec.Engine.BaseFill
		}
		op := OpSpec{Kind: "render", Entry: entry, File: p.name, Data: d, Writer: WriterSpec{FailAt: -1}, Reader: ReaderSpec{FailAfter: -1}, Expect: &Expect{Markers: map[string]int{}}}
		isFile := entry == "Load.Render" || entry == "RenderFile" || entry == "Base.RenderFile" || entry == "Base.Load.Render"
		if entry == "RenderString" || entry == "RenderByte" || entry == "RenderReader" || entry == "Base.RenderString" {
			op.Source = p.body
		}
		op.Expect.Kinds = map[string]string{}
		for m, f := range p.markers {
			if p.selfInc && !(isFile || entry == "Vue.Render" || entry == "Vue.RenderFragment") {
				// the entry template is a string / node list with the file's text: whether its elements are "the same"
				// as those of the file it includes is not something the statement settles
				continue
			}
			op.Expect.Markers[m] = f(d.Items, d.Flag)
			op.Expect.Kinds[m] = p.kinds[m]
		}
		if p.layout {
			shared := false
			for m, f := range layoutMarkers {
				op.Expect.Kinds[m] = "layout"
				if f(0, false) == 2 {
					op.Expect.Kinds[m] = "component shared by page and layout"
					shared = true
					if isFile {
						op.Expect.Markers[m] = 2
					} else {
						op.Expect.Markers[m] = 1 // no layout applied: only the page's own include
					}
				} else if isFile {
					op.Expect.Markers[m] = 1
				} else {
					op.Expect.Markers[m] = 0
				}
			}
			_ = shared
		}
		if p.slots {
			// the page render emits the content of its <template #name> elements once, and the layout's frame
			// component places each named slot once more (the rule applies to page and layout separately)
			for mi, m := range slotMarkers {
				op.Expect.Kinds[m] = "page's named slot placed by a component of the layout"
				if directSlots {
					op.Expect.Kinds[m] = "page's named slot placed twice by the layout itself"
				}
				if isFile && !(directSlots && mi == 1) {
					op.Expect.Markers[m] = 2
				} else {
					op.Expect.Markers[m] = 1 // no layout applied, or a slot the layout does not place: the page's own emission only
				}
				// That the page render prints the content of its own <template #name> elements in place is what vuego
				// does today, not something the statement asks for: an engine that only hands them to the layout emits
				// each one time less. What the statement does ask for is that the two distinct elements are treated
				// alike where they are placed alike.
				if op.Expect.OneLess == nil {
					op.Expect.OneLess = map[string]bool{}
				}
				op.Expect.OneLess[m] = true
			}
			if !(directSlots && isFile) {
				op.Expect.Same = append(op.Expect.Same, []string{slotMarkers[0], slotMarkers[1]})
			}
		}
		spec.Ops = append(spec.Ops, op)
	}
	return spec
}

func countMarker(out, m string) int {
	// markers are ONCE<n>M; avoid counting ONCE1M inside ONCE1MX or ONCE11M
	n := 0
	for i := 0; ; {
		j := strings.Index(out[i:], m)
		if j < 0 {
			break
		}
		end := i + j + len(m)
		if end >= len(out) || out[end] != 'X' {
			n++
		}
		i = end
	}
	return n
}

func c16Placement(spec *RunSpec, m string) string {
	for _, f := range spec.Files {
		c := f.Versions[0].Content
		i := strings.Index(c, m+"<")
		if i < 0 {
			i = strings.Index(c, m)
		}
		if i < 0 {
			continue
		}
		where := "page"
		switch {
		case strings.HasPrefix(f.Name, "components/Shared"):
			where = "component shared by page and layout"
		case strings.HasPrefix(f.Name, "components/"):
			where = "component"
		case strings.HasPrefix(f.Name, "layouts/"):
			where = "layout"
		}
		line := c[:i]
		if k := strings.LastIndex(line, "\n"); k >= 0 {
			line = line[k:]
		}
		switch {
		case strings.Contains(line, "v-for") && strings.Contains(line, "v-once>"+m) && strings.Contains(line, `" v-once>`+m):
			where += "/on-loop-element"
		case strings.Contains(line, "v-for"):
			where += "/in-loop"
		case strings.Contains(line, "v-if"):
			where += "/in-branch"
		default:
			where += "/plain"
		}
		return where
	}
	return "?"
}

func execC16(spec *RunSpec) *Result {
	res := &Result{Run: spec.Run}
	outs, rep, _ := runHistory(spec, spec.Kernel)
	res.addStat("cases", int64(len(spec.Ops)))
	res.addStat("steps", rep.Steps)
	res.addStat("clock_span_ns", rep.ClockSpanNs)
	res.addStat("clock_reads", rep.ClockReads)
	h := hashBytes()
	for i, op := range spec.Ops {
		o := outs[i]
		h = hashBytes([]byte(fmt.Sprint(h)), o.Out, []byte(o.Err))
		if o.Panic != "" || o.Overrun || o.Deadlock {
			res.addStat("c11_class_events", 1)
			noteCrash(res, spec, i, op, o)
			continue
		}
		if op.Expect != nil && op.Expect.Markers["must-fail"] == 1 {
			continue // the deliberately failing page: only what it leaves behind matters
		}
		if o.IsErr {
			res.violate("C16", "unexpected-error", "render error in a v-once program via "+op.Entry, "op %d (%s %s): %s", i, op.Entry, op.File, o.Err)
			continue
		}
		out := string(o.Out)
		var ms []string
		for m := range op.Expect.Markers {
			ms = append(ms, m)
		}
		sort.Strings(ms)
		for _, m := range ms {
			want := op.Expect.Markers[m]
			got := countMarker(out, m)
			place := op.Expect.Kinds[m]
			if place == "" {
				place = c16Placement(spec, m)
			}
			res.Cover = append(res.Cover, fmt.Sprintf("%s/%s/want%d", entryClass(op.Entry), place, want))
			if got != want && !(op.Expect.OneLess[m] && got == want-1) {
				clock := "ticking"
				if spec.Kernel.Clock.TickNs == 0 {
					clock = "frozen"
				} else if spec.Kernel.Clock.Every > 1 {
					clock = "coarse"
				} else if spec.Kernel.Clock.JumpAtCall > 0 {
					clock = "jumping"
				}
				kind := "suppressed"
				if got > want {
					kind = "repeated"
				}
				res.violate("C16", "marker-count", fmt.Sprintf("v-once element %s: %s, entry %s", kind, place, entryClass(op.Entry)),
					"op %d (%s %s, items=%d flag=%v, clock %s): marker %s (%s) occurs %d times, the statement requires %d\n  output: %s",
					i, op.Entry, op.File, op.Data.Items, op.Data.Flag, clock, m, place, got, want, clip(out, 700))
			}
		}
		for _, grp := range op.Expect.Same {
			for _, m := range grp[1:] {
				if a, b := countMarker(out, grp[0]), countMarker(out, m); a != b {
					res.violate("C16", "marker-count", fmt.Sprintf("v-once element suppressed: %s, entry %s", op.Expect.Kinds[m], entryClass(op.Entry)),
						"op %d (%s %s): markers %s and %s are placed alike but occur %d and %d times: one distinct v-once element is treated differently from the other\n  output: %s",
						i, op.Entry, op.File, grp[0], m, a, b, clip(out, 700))
				}
			}
		}
	}
	res.Cover = dedup(res.Cover)
	res.Digest = fmt.Sprintf("%x", h)
	if spec.Run%40 == 0 {
		var hist []string
		for _, op := range spec.Ops {
			hist = append(hist, fmt.Sprintf("%s %s items=%d expect=%v", op.Entry, op.File, op.Data.Items, op.Expect.Markers))
		}
		res.Sample = map[string]any{"history": hist, "clock": spec.Kernel.Clock}
	}
	return res
}

func entryClass(e string) string {
	switch e {
	case "RenderString", "RenderByte", "RenderReader":
		return "string"
	case "Base.RenderString":
		return "string on the base template"
	case "Base.RenderFile", "Base.Load.Render":
		return "file on the base template"
	case "Vue.RenderFragment":
		return "fragment"
	case "Vue.Render":
		return "file(Vue.Render)"
	}
	return "file(Template)"
}

var _ = simrt.Active
