package h

import (
	"fmt"
	"strings"

	"github.com/titpetric/vuego/simrt"
)

// C11 (part) — every render call returns: no panic, no unbounded recursion, under
// every generated file graph (all include digraphs over a bounded file set,
// layout chains and cycles, slot content reused at several positions), hostile
// typed data in directive positions, and every injected environment fault.
//
// Besides its own configurations the check draws runs from every other workload
// family and evaluates only the crash monitors on them.

// noteCrash records the crash monitors for one operation outcome (used by every driver).
func noteCrash(res *Result, spec *RunSpec, i int, op OpSpec, o Outcome) {
	if strings.HasPrefix(o.Panic, "simrt:") {
		// the kernel's own limits (too many tasks, ...): harness trouble, never a verdict on the code under test
		res.Err = "kernel limit: " + clip(o.Panic, 200)
		return
	}
	if o.Panic != "" {
		site := o.Panic
		if k := strings.LastIndex(site, " @"); k >= 0 {
			site = site[k+2:]
		}
		res.violateSpec(crashSpec(spec, i), "C11", "panic", "panic escapes to the caller in "+site, "op %d (%s %s data=%s): panic: %s", i, op.Entry, op.File, op.Data.Shape, clip(o.Panic, 400))
	}
	if o.Overrun {
		res.violateSpec(crashSpec(spec, i), "C11", "no-return", "render does not return (step budget exceeded), family "+strings.TrimPrefix(spec.Family, "c11-via-"), "op %d (%s %s): no return within the kernel step budget", i, op.Entry, op.File)
	}
	if o.Deadlock {
		res.violateSpec(crashSpec(spec, i), "C11", "deadlock", "render blocks forever on a lock", "op %d (%s %s): all live tasks blocked", i, op.Entry, op.File)
	}
}

func crashSpec(spec *RunSpec, i int) *RunSpec {
	c := cloneSpec(spec)
	c.Property = "C11"
	if c.Family == "" || !strings.HasPrefix(c.Family, "c11") {
		c.Family = "c11-via-" + spec.Family
	}
	return c
}

var c11Styles = []string{"plain", "guarded", "loop", "slot", "first", "fallback", "namedslot", "shorthand"}

func c11Edge(style, target string, idx int) string {
	switch style {
	case "guarded":
		return fmt.Sprintf(`<div v-if="depth > 0"><template include="%s" :depth="depth - 1"></template></div>`, target)
	case "loop":
		return fmt.Sprintf(`<div v-for="item in items"><template include="%s"></template></div>`, target)
	case "slot":
		return fmt.Sprintf(`<template include="components/Holder.vuego"><template include="%s"></template></template>`, target)
	case "fallback": // the include sits in the fallback content of a slot nobody fills (evaluated by evalSlot)
		return fmt.Sprintf(`<slot name="unfilled%d"><template include="%s"></template></slot>`, idx, target)
	case "namedslot": // the include is named-slot content handed to a component that places the slot once
		return fmt.Sprintf(`<template include="components/NamedHolder.vuego"><template #x><template include="%s"></template></template></template>`, target)
	case "shorthand":
		if strings.HasPrefix(target, "components/Comp") {
			tag := "comp-" + strings.ToLower(strings.TrimSuffix(strings.TrimPrefix(target, "components/Comp"), ".vuego"))
			return fmt.Sprintf(`<%s></%s>`, tag, tag)
		}
	}
	return fmt.Sprintf(`<template include="%s"></template>`, target)
}

func genC11(seed uint64, run int, tier string) *RunSpec {
	r := NewRand(seed, run)
	fam := run % 12
	var spec *RunSpec
	switch fam {
	case 0, 1, 2, 3:
		spec = genC11Includes(r, run/12*4+fam, tier)
	case 4:
		spec = genC11Layouts(r)
	case 5:
		if (run/12)%3 == 0 {
			spec = genC11Less(r)
		} else {
			spec = genC11Slots(r)
		}
	case 6:
		spec = genC11Hostile(r)
	case 7:
		spec = genC10(seed, run, tier)
		c11AddFaults(r, spec)
		if r.Chance(35) {
			c11Tear(r, spec)
		}
	case 8:
		spec = genC12(seed, run, "quick")
	case 9:
		spec = genC15(seed, run, tier)
	case 10:
		spec = genC16(seed, run, tier)
		c11AddFaults(r, spec)
		if r.Chance(20) {
			c11Tear(r, spec)
		}
	default:
		spec = genC17(seed, run, tier)
	}
	if spec.Family == "" || !strings.HasPrefix(spec.Family, "c11") {
		spec.Family = "c11-via-" + spec.Family
	}
	spec.Property = "C11"
	spec.Seed, spec.Run = seed, run
	if r.Chance(8) && fam != 9 {
		spec.Engine.MtimeJitter = true // files whose modification time moves on at every look
	}
	return spec
}

// c11Tear replaces one or two files by a prefix of themselves - what a reader sees of a file that is being
// written, or was cut short by a full disk - optionally with CRLF line ends, with a bias towards cuts inside or
// right behind the front-matter block (where the loader does its own byte-level parsing).
func c11Tear(r *Rand, spec *RunSpec) {
	if len(spec.Files) == 0 {
		return
	}
	for k := 0; k < 1+r.Intn(2); k++ {
		f := &spec.Files[r.Intn(len(spec.Files))]
		crlf := r.Chance(50)
		for v := range f.Versions {
			c := f.Versions[v].Content
			if crlf {
				c = strings.ReplaceAll(c, "\n", "\r\n")
			}
			cut := r.Intn(len(c) + 1)
			if len(c) > 3 && r.Chance(45) {
				if i := strings.Index(c[3:], "---"); i >= 0 {
					cut = 3 + i + r.Intn(7)
					if cut > len(c) {
						cut = len(c)
					}
				}
			}
			f.Versions[v].Content = c[:cut]
			for i := range spec.Ops {
				if spec.Ops[i].File == f.Name && spec.Ops[i].Source != "" && r.Bool() {
					spec.Ops[i].Source = c[:cut]
				}
			}
		}
	}
	spec.Note += " torn-files"
}

func c11AddFaults(r *Rand, spec *RunSpec) {
	n := 1 + r.Intn(4)
	for i := 0; i < n; i++ {
		spec.Faults = append(spec.Faults, FaultSpec{Op: r.Intn(len(spec.Ops) + 1), N: 1 + r.Intn(8), Kind: Pick(r, faultKinds), Arg: r.Intn(200)})
	}
	for i := range spec.Ops {
		if r.Chance(20) {
			spec.Ops[i].Writer = WriterSpec{FailAt: r.Intn(300), Form: r.Intn(3)}
		}
		if r.Chance(20) {
			spec.Ops[i].Ctx = CtxSpec{CancelAtPoll: 1 + r.Intn(3)}
		}
		if r.Chance(10) {
			spec.Ops[i].Reader = ReaderSpec{FailAfter: r.Intn(200), Chunk: 1 + r.Intn(8)}
		}
	}
}

// genC11Includes: include digraph over {page, CompA, CompB, CompC}. For index < 2048 the graph over
// {page, A, B} is enumerated (9 possible edges => 512 graphs x 7 edge styles); beyond that graphs over 4 nodes are drawn.
func genC11Includes(r *Rand, index int, tier string) *RunSpec {
	names := []string{"pages/page.vuego", "components/CompA.vuego", "components/CompB.vuego", "components/CompC.vuego"}
	nn := 3
	var bits uint32
	style := ""
	if index < 3584 {
		bits = uint32(index % 512)
		style = c11Styles[(index/512)%7]
	} else {
		nn = 4
		bits = uint32(r.U64()) & 0xffff
	}
	g := NewGen(r)
	g.Feat = map[string]bool{}
	spec := &RunSpec{Family: "c11-includes"}
	uncond := make([][]int, nn) // unconditional plain include edges (must-error analysis)
	roots := []int{0}
	anyShort := false
	for i := 0; i < nn; i++ {
		var parts, firstParts []string
		parts = append(parts, fmt.Sprintf(`<i>node%d {{ name }}</i>`, i))
		for j := 0; j < nn; j++ {
			if bits&(1<<uint(i*nn+j)) == 0 {
				continue
			}
			st := style
			if st == "" {
				st = Pick(r, c11Styles)
			}
			if st == "shorthand" && j == 0 {
				st = "plain"
			}
			if st == "shorthand" {
				anyShort = true
			}
			if st == "first" {
				// the include is the FIRST node of the file (evalTemplate handles it, not evaluate)
				firstParts = append(firstParts, c11Edge("plain", names[j], j))
				uncond[i] = append(uncond[i], j)
				continue
			}
			parts = append(parts, c11Edge(st, names[j], j))
			// shorthand component tags are only resolved in the top-level template (preProcessNodes); inside an
			// included component (also when the page itself is included again) the tag is plain markup. A shorthand
			// edge therefore only makes its target reachable from the top-level page; it is never part of a cycle.
			if st == "plain" || st == "fallback" {
				// fallback content of a slot nobody fills is evaluated whenever the file is: an unconditional include
				// edge. Named-slot content is NOT counted: a nested include inherits the outer slot scope
				// (evalInclude only creates one when there is none), so below the first level the content is not placed.
				uncond[i] = append(uncond[i], j)
			}
			if st == "shorthand" && i == 0 {
				roots = append(roots, j)
			}
		}
		if len(firstParts) > 0 {
			// a file whose first node is an include: when the file is itself included, evalTemplate returns only that
			// first include's result and drops the rest of the file, so only the first edge is guaranteed to be followed
			uncond[i] = uncond[i][:0]
			for j := 0; j < nn; j++ {
				if strings.Contains(firstParts[0], `"`+names[j]+`"`) {
					uncond[i] = append(uncond[i], j)
				}
			}
		}
		g.put(names[i], strings.Join(append(firstParts, parts...), "\n"))
	}
	g.put("components/Holder.vuego", `<div class="holder"><slot></slot></div>`)
	g.put("components/NamedHolder.vuego", `<div class="nholder"><slot name="x"></slot></div>`)
	// an unconditional cycle reachable from the page must produce an error
	mustErr := false
	seen := make([]int, nn) // 0 unvisited, 1 on stack, 2 done
	var dfs func(int)
	dfs = func(u int) {
		seen[u] = 1
		for _, v := range uncond[u] {
			if seen[v] == 1 {
				mustErr = true
			} else if seen[v] == 0 {
				dfs(v)
			}
		}
		seen[u] = 2
	}
	for _, rt := range roots {
		if seen[rt] == 0 {
			dfs(rt)
		}
	}
	spec.Files = g.FileSpecs(1_700_000_000_000_000_000)
	spec.Engine = randomEngine(r, EngineSpec{Components: anyShort})
	entry := Pick(r, Entries)
	d := DataSpec{Shape: Pick(r, []string{"map", "struct", "ptr"}), Tag: "zz0zz", Items: r.Intn(3), Flag: r.Bool(), Depth: r.Intn(5)}
	op := OpSpec{Kind: "render", Entry: entry, File: names[0], Data: d, Writer: WriterSpec{FailAt: -1}, Reader: ReaderSpec{FailAfter: -1}}
	if entry == "RenderString" || entry == "RenderByte" || entry == "RenderReader" {
		op.Source = g.Files[names[0]][0]
	}
	if mustErr {
		op.Expect = &Expect{Markers: map[string]int{"must-error": 1}}
	}
	spec.Ops = []OpSpec{op}
	spec.Kernel = randomKernelSeq(r)
	spec.Note = fmt.Sprintf("include graph bits=%b nodes=%d style=%s mustErr=%v", bits, nn, style, mustErr)
	return spec
}

func genC11Layouts(r *Rand) *RunSpec {
	g := NewGen(r)
	g.Feat = map[string]bool{}
	spec := &RunSpec{Family: "c11-layouts"}
	shape := r.Intn(8)
	mustErr := false
	lay := func(name, next, body string) {
		fm := map[string]string{}
		if next != "" {
			fm["layout"] = next
		}
		g.put("layouts/"+name+".vuego", PageFile(body+`<div v-html="content"></div>`, fm))
	}
	first := "l0"
	switch shape {
	case 0: // self reference
		lay("l0", "l0", "<b>self</b>")
		mustErr = true
	case 1: // 2-cycle
		lay("l0", "l1", "<b>l0</b>")
		lay("l1", "l0", "<b>l1</b>")
		mustErr = true
	case 2: // 3-cycle entered from a tail
		lay("l0", "l1", "<b>l0</b>")
		lay("l1", "l2", "<b>l1</b>")
		lay("l2", "l3", "<b>l2</b>")
		lay("l3", "l1", "<b>l3</b>")
		mustErr = true
	case 3: // missing target: the call must return; whether a missing layout is an error is not C11's business
		lay("l0", "nowhere", "<b>l0</b>")
	case 4: // long chain, below and beyond the limit
		n := Pick(r, []int{5, 50, 98, 99, 100, 101, 130})
		for i := 0; i < n; i++ {
			next := fmt.Sprintf("l%d", i+1)
			if i == n-1 {
				next = ""
			}
			lay(fmt.Sprintf("l%d", i), next, fmt.Sprintf("<b>%d</b>", i))
		}
	case 5: // the page names itself as its layout
		first = "../pages/page"
	case 7: // a cycle whose layouts place the content twice: the document doubles on every lap
		lay2 := func(name, next string) {
			g.put("layouts/"+name+".vuego", PageFile(`<div v-html="content"></div><div v-html="content"></div>`, map[string]string{"layout": next}))
		}
		if r.Bool() {
			lay2("l0", "l0")
		} else {
			lay2("l0", "l1")
			lay2("l1", "l0")
		}
		mustErr = true
	case 6: // base layout that names itself / the page
		g.put("layouts/base.vuego", PageFile(`<html><body><div v-html="content"></div></body></html>`, map[string]string{"layout": "base"}))
		first = ""
		mustErr = true
	}
	fm := map[string]string{}
	if first != "" {
		fm["layout"] = first
	}
	g.put("pages/page.vuego", PageFile("<main>{{ title }}</main>", fm))
	spec.Files = g.FileSpecs(1_700_000_000_000_000_000)
	spec.Engine = randomEngine(r, g.Eng)
	op := OpSpec{Kind: "render", Entry: Pick(r, []string{"Load.Render", "RenderFile"}), File: "pages/page.vuego", Data: randomData(r, "zz0zz"), Writer: WriterSpec{FailAt: -1}, Reader: ReaderSpec{FailAfter: -1}}
	if mustErr {
		op.Expect = &Expect{Markers: map[string]int{"must-error": 1}}
	}
	spec.Ops = []OpSpec{op}
	spec.Kernel = randomKernelSeq(r)
	spec.Note = fmt.Sprintf("layout graph shape=%d", shape)
	return spec
}

func genC11Slots(r *Rand) *RunSpec {
	g := NewGen(r)
	g.Feat = map[string]bool{}
	spec := &RunSpec{Family: "c11-slots"}
	comp := Pick(r, []string{
		`<div><slot></slot><slot></slot></div>`,
		`<div v-for="item in items"><slot></slot></div><slot></slot>`,
		`<ul><li v-for="item in items"><slot name="row"></slot><slot></slot></li></ul><slot name="row"></slot>`,
		`<div><slot></slot><p><slot></slot></p><slot name="x">fb</slot><slot name="x">fb2</slot></div>`,
		`<div v-for="item in items"><span v-for="t in item.tags"><slot></slot></span></div>`,
		`<ul><template v-for="item in items"><slot name="x"></slot></template></ul><div><slot name="row"></slot><slot name="row"></slot></div>`,
	})
	g.put("components/Multi.vuego", comp)
	use := Pick(r, []string{
		`<template include="components/Multi.vuego"><p>one</p><p>two {{ name }}</p></template>`,
		`<template include="components/Multi.vuego" :items="items"><template #row><b>row</b><i>r2</i></template><em>d</em></template>`,
		`<template include="components/Multi.vuego" :items="items">text only</template>`,
		`<div v-for="item in items"><template include="components/Multi.vuego" :items="items"><p>a</p><p>b</p></template></div>`,
		`<template include="components/Multi.vuego" :items="items"><template v-slot:x><u>x1</u><u>x2</u></template><p>a</p><p>b</p></template>`,
		`<template include="components/Multi.vuego" :items="items"><p>outer</p><slot></slot></template>`,
		`<template include="components/Multi.vuego" :items="items"><template #row><template v-html="html"></template></template><template #x><template v-html="html"></template><i>x</i></template></template>`,
		`<template include="components/Multi.vuego" :items="items"><template #row><p v-text="title"></p><template :k="n"><b>{{ k }}</b></template></template></template>`,
		`<template include="components/Multi.vuego" :items="items"><template #x><template v-html="html"></template></template><template #row><template v-html="html"></template></template></template>`,
		`<template include="components/Multi.vuego" :items="items"><template #x><template v-html="html"></template></template></template>`,
		`<template include="components/Multi.vuego" :items="items"><template #x><li>a</li><!-- trailing comment --></template><template #row><!-- c1 --><b>r</b><!-- c2 --></template></template>`,
		`<template include="components/Multi.vuego" :items="items"><template #x><!-- only a comment --></template><template #row>text only<!-- c --></template></template>`,
		`<template include="components/Multi.vuego" :items="items"><template #row><slot name="row"></slot></template><div><slot></slot></div></template>`,
		`<template include="components/Multi.vuego"><template include="components/Multi.vuego"><slot></slot><b>inner</b></template></template>`,
	})
	body := "<main>\n" + use + "\n" + use + "\n</main>"
	g.put("pages/page.vuego", body)
	if r.Bool() {
		g.put("layouts/base.vuego", `<html><body><slot name="row"></slot><div v-html="content"></div><slot name="row"></slot></body></html>`)
	}
	spec.Files = g.FileSpecs(1_700_000_000_000_000_000)
	spec.Engine = randomEngine(r, g.Eng)
	entry := Pick(r, Entries)
	op := OpSpec{Kind: "render", Entry: entry, File: "pages/page.vuego", Data: DataSpec{Shape: "map", Tag: "zz0zz", Items: r.Intn(4), Flag: true}, Writer: WriterSpec{FailAt: -1}, Reader: ReaderSpec{FailAfter: -1}}
	if entry == "RenderString" || entry == "RenderByte" || entry == "RenderReader" {
		op.Source = body
	}
	spec.Ops = []OpSpec{op, op}
	spec.Kernel = randomKernelSeq(r)
	spec.Note = "slot content reused: " + comp
	return spec
}

// genC11Less: LESS @import graphs through the LESS processor (self import, mutual import, chain, missing file, directory).
func genC11Less(r *Rand) *RunSpec {
	g := NewGen(r)
	g.Feat = map[string]bool{}
	g.Eng.Less = true
	spec := &RunSpec{Family: "c11-less"}
	shape := r.Intn(8)
	switch shape {
	case 0:
		g.put("a.less", "@import \"a.less\";\n.a { color: blue; }\n")
	case 1:
		g.put("a.less", "@import \"b.less\";\n.a { color: blue; }\n")
		g.put("b.less", "@import \"a.less\";\n.b { color: red; }\n")
	case 2:
		for i := 0; i < 6; i++ {
			g.put(fmt.Sprintf("c%d.less", i), fmt.Sprintf("@import \"c%d.less\";\n.c%d { margin: %dpx; }\n", i+1, i, i))
		}
		g.put("c6.less", ".end { margin: 0; }\n")
		g.put("a.less", "@import \"c0.less\";\n")
	case 3:
		g.put("a.less", "@import \"missing.less\";\n.a { color: blue; }\n")
	case 4:
		g.put("a.less", "@import \"side\";\n@import \"side/x.less\";\n")
		g.put("side/x.less", "@import \"../a.less\";\n.x { color: green; }\n")
	case 5:
		g.put("a.less", "@import \"a.less\";\n@import \"a.less\";\n")
	case 6: // a cycle through files that are not named *.less
		g.put("a.less", "@import \"loop.css\";\n.a { color: blue; }\n")
		g.put("loop.css", "@import \"loop.inc\";\n.c { color: red; }\n")
		g.put("loop.inc", "@import \"loop.css\";\n.i { color: green; }\n")
	case 7:
		g.put("a.less", "@import \"self\";\n")
		g.put("self", "@import \"self\";\n.s { margin: 0; }\n")
	}
	body := "<main>\n<style type=\"text/css+less\">\n@import \"a.less\";\n.x { color: red; }\n</style>\n<p>{{ title }}</p>\n</main>\n"
	g.put("pages/page.vuego", body)
	spec.Files = g.FileSpecs(1_700_000_000_000_000_000)
	spec.Engine = randomEngine(r, g.Eng)
	entry := Pick(r, Entries)
	op := OpSpec{Kind: "render", Entry: entry, File: "pages/page.vuego", Data: randomData(r, "zz0zz"), Writer: WriterSpec{FailAt: -1}, Reader: ReaderSpec{FailAfter: -1}}
	if entry == "RenderString" || entry == "RenderByte" || entry == "RenderReader" {
		op.Source = body
	}
	spec.Ops = []OpSpec{op}
	spec.Kernel = randomKernelSeq(r)
	if r.Chance(30) {
		spec.Faults = []FaultSpec{{Op: 0, N: 1 + r.Intn(8), Kind: Pick(r, faultKinds), Arg: r.Intn(50)}}
	}
	spec.Note = fmt.Sprintf("LESS @import graph shape=%d", shape)
	return spec
}

func genC11Hostile(r *Rand) *RunSpec {
	g := NewGen(r)
	spec := &RunSpec{Family: "c11-hostile"}
	targeted := []string{
		`<div style="color:red" :style="n">x</div>`,
		`<div style="color:red" :style="items">x</div>`,
		`<p v-for="x in n">{{ x }}</p>`,
		`<p v-for="(a, b, c) in items">{{ a }}</p>`,
		`<p v-for="x in title">{{ x }}</p>`,
		`<p v-for="x in user">{{ x }}</p>`,
		`<p>{{ hidden }} {{ user.hidden }}</p>`,
		`<p :class="items" :style="user">c</p>`,
		`<p v-html="items" v-text="m">c</p>`,
		`<p>{{ title | upper | len }} {{ items | int }} {{ m | string | lower }}</p>`,
		`<p>{{ n | double }} {{ title | double }}</p>`,
		`<p v-if="m">m</p><p v-else-if="items">i</p>`,
		`<p v-show="user">u</p>`,
		`<template include="components/Card.vuego" :title="items" :body="m"></template>`,
		`<p>{{ items[0][0][0] }} {{ m.k1.k2.k3 }} {{ n.x }} {{ title[5] }}</p>`,
		`<p>{{ items['] }} {{ user["] }} {{ m[' }} {{ m['k1] }} {{ items[ }}</p>`,
		`<p v-for="x in items[']">{{ x }}</p><p v-if="user[']">u</p><template :x="user[']"><i>{{ x }}</i></template>`,
		`<p>{{ title + n }} {{ items + 1 }} {{ user > 3 }}</p>`,
		`<template :x="jsonFile(n)"><i>{{ x }}</i></template>`,
		`<p>{{ formatTime(n, title) }} {{ n | formatDate }}</p>`,
		`<p>{{ join2(items, m) }} {{ wrap(n) }}</p>`,
	}
	g.Eng.Funcs = true
	g.needCard()
	var parts []string
	for i := 0; i < 1+r.Intn(3); i++ {
		parts = append(parts, Pick(r, targeted))
	}
	for i := 0; i < r.Intn(3); i++ {
		parts = append(parts, g.snippet())
	}
	body := "<main>\n" + strings.Join(parts, "\n") + "\n</main>"
	g.put("pages/page.vuego", body)
	spec.Files = g.FileSpecs(1_700_000_000_000_000_000)
	spec.Engine = randomEngine(r, g.Eng)
	entry := Pick(r, Entries)
	op := OpSpec{Kind: "render", Entry: entry, File: "pages/page.vuego", Data: DataSpec{Shape: Pick(r, []string{"hostile", "hostile", "struct", "ptr", "nil", "map"}), Tag: "zz0zz", Items: r.Intn(3), Variant: r.Intn(6)}, Writer: WriterSpec{FailAt: -1}, Reader: ReaderSpec{FailAfter: -1}}
	if entry == "RenderString" || entry == "RenderByte" || entry == "RenderReader" {
		op.Source = body
	}
	spec.Ops = []OpSpec{op}
	spec.Kernel = randomKernelSeq(r)
	spec.Note = "hostile data in directive positions"
	return spec
}

func execC11(spec *RunSpec) *Result {
	var res *Result
	via := strings.TrimPrefix(spec.Family, "c11-via-")
	switch via {
	case "c10-history":
		res = execC10(spec)
	case "c12-grid":
		res = execC12(spec)
	case "c15-seq", "c15-conc":
		res = execC15(spec)
	case "c16-history":
		res = execC16(spec)
	case "c17-stack":
		res = execC17(spec)
		// a panicking stack operation is a crash the caller sees
		for _, v := range res.Violations {
			if v.Class == "panic" {
				res.violateSpec(v.Spec, "C11", "panic", strings.Replace(v.Signature, "stack operation panicked", "panic escapes to the caller in", 1), "%s", v.Detail)
			}
		}
	default:
		res = execC11Own(spec)
	}
	// only the crash monitors count here
	var keep []Violation
	for _, v := range res.Violations {
		if v.Property == "C11" {
			if v.Spec != nil {
				v.Spec.Property = "C11"
				v.Spec.Family = spec.Family
			}
			keep = append(keep, v)
		}
	}
	res.Violations = keep
	res.Cover = append(res.Cover, "family/"+spec.Family)
	if len(spec.Faults) > 0 {
		res.Cover = append(res.Cover, "family/"+spec.Family+"/faults")
	}
	res.Sample = nil
	if spec.Run%97 == 0 {
		res.Sample = map[string]any{"family": spec.Family, "note": spec.Note}
	}
	return res
}

func execC11Own(spec *RunSpec) *Result {
	res := &Result{Run: spec.Run}
	outs, rep, sfs := runHistory(spec, spec.Kernel)
	res.addStat("cases", int64(len(spec.Ops)))
	res.addStat("steps", rep.Steps)
	res.addStat("clock_span_ns", rep.ClockSpanNs)
	for k, v := range sfs.Fired() {
		res.addStat("fault_fs_"+k, v)
	}
	h := hashBytes()
	for i, op := range spec.Ops {
		o := outs[i]
		h = hashBytes([]byte(fmt.Sprint(h)), o.Out, []byte(o.Err), []byte(o.Panic))
		noteCrash(res, spec, i, op, o)
		kind := "ok"
		if o.IsErr {
			kind = "error"
		}
		res.Cover = append(res.Cover, spec.Family+"/"+entryClass(op.Entry)+"/"+kind)
		if op.Expect != nil && op.Expect.Markers["must-error"] == 1 && !o.IsErr && o.Panic == "" && !o.Overrun {
			res.violateSpec(crashSpec(spec, i), "C11", "cycle-not-reported", "unconditional cycle rendered without an error ("+spec.Family+")", "op %d (%s): %s; output: %s", i, op.Entry, spec.Note, clip(string(o.Out), 300))
		}
		if o.IsErr && strings.Contains(o.Err, "depth") {
			res.addStat("depth_limit_errors", 1)
		}
	}
	res.Cover = dedup(res.Cover)
	res.Digest = fmt.Sprintf("%x", h)
	return res
}

var _ = simrt.Active
