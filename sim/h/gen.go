package h

import (
	"fmt"
	"sort"
	"strings"
)

func sortStrings(s []string) { sort.Strings(s) }

// Gen generates a template program set (pages, components, layouts, side files) from feature toggles.
type Gen struct {
	R     *Rand
	Files map[string][]string // name -> versions (content)
	Order []string
	Feat  map[string]bool
	Eng   EngineSpec
	once  int
}

// feature names; a run enables a random subset (swarm style).
var allFeatures = []string{
	"interp", "if", "for", "formap", "attrs", "style", "show", "vhtml", "vtext", "pipes", "funcs", "expr",
	"include", "slots", "scoped", "shorthand", "once", "tplvar", "filefn", "less", "frontmatter", "layout",
	"baselayout", "vpre", "script", "fresh", "nestedfor", "fmcomp", "comment", "config", "lessimport", "combo", "scale",
}

func NewGen(r *Rand) *Gen {
	g := &Gen{R: r, Files: map[string][]string{}, Feat: map[string]bool{}}
	// swarm: each feature on with probability 1/2, at least four on
	for len(g.enabled()) < 4 {
		for _, f := range allFeatures {
			if r.Chance(50) {
				g.Feat[f] = true
			}
		}
	}
	return g
}

func (g *Gen) enabled() []string {
	var out []string
	for _, f := range allFeatures {
		if g.Feat[f] {
			out = append(out, f)
		}
	}
	return out
}

func (g *Gen) on(f string) bool { return g.Feat[f] }

func (g *Gen) put(name string, content string) {
	if _, ok := g.Files[name]; !ok {
		g.Order = append(g.Order, name)
	}
	g.Files[name] = []string{content}
}

func (g *Gen) has(name string) bool { _, ok := g.Files[name]; return ok }

// component library (added on demand)
func (g *Gen) needCard() string {
	n := "components/Card.vuego"
	if !g.has(n) {
		g.put(n, `<template :required="title"><div class="card"><h3>{{ title }}</h3><p v-if="body">{{ body }}</p><slot></slot></div></template>`)
	}
	return n
}

func (g *Gen) needBox() string {
	n := "components/Box.vuego"
	if !g.has(n) {
		g.put(n, `<div class="box"><header><slot name="header"><em>default header</em></slot></header><slot></slot><footer><slot name="footer">f:{{ name }}</slot></footer></div>`)
	}
	return n
}

func (g *Gen) needList() string {
	n := "components/List.vuego"
	if !g.has(n) {
		g.put(n, `<ul class="list"><li v-for="(index, item) in items"><slot :item="item" :index="index"></slot></li></ul>`)
	}
	return n
}

func (g *Gen) needFmComp() string {
	n := "components/FmComp.vuego"
	if !g.has(n) {
		g.put(n, "---\ncompvar: from-comp-fm\n---\n<b class=\"fm\">{{ compvar }} / {{ title }}</b>")
	}
	return n
}

func (g *Gen) needBadge() string {
	n := "components/Badge.vuego"
	if !g.has(n) {
		g.put(n, `<span class="badge" :title="label">{{ label | upper }}</span>`)
	}
	return n
}

func (g *Gen) needCardX() string {
	n := "components/CardX.vuego"
	if !g.has(n) {
		g.Eng.Components = true
		g.put(n, `<section class="cardx"><h4>{{ heading }}</h4><slot></slot></section>`)
	}
	return n
}

func (g *Gen) needNested() string {
	n := "components/Nested.vuego"
	if !g.has(n) {
		card := g.needCard()
		g.put(n, `<div class="nested"><template include="`+card+`" :title="title" body="nested body"></template><template include="`+g.needBadge()+`" :label="name"></template></div>`)
	}
	return n
}

func (g *Gen) needSide() {
	if !g.has("side/data.json") {
		g.put("side/data.json", `{"k":"json-k","list":[1,2,3],"nested":{"a":"json-a"}}`)
		g.put("side/raw.html", `<i>raw file</i>`)
		g.put("side/data.yml", "name: yaml-name\nnum: 7\n")
	}
}

func (g *Gen) onceMarker() string {
	g.once++
	return fmt.Sprintf("ONCE%dM", g.once)
}

// snippet returns one block of template text using the enabled features.
func (g *Gen) snippet() string {
	r := g.R
	type sn struct {
		feat string
		f    func() string
	}
	cat := []sn{
		{"interp", func() string {
			return Pick(r, []string{`<h1>{{ title }}</h1>`, `<p>Hello {{ name }}, n={{ n }} num={{ num }}</p>`, `<p>[{{ assigned }}] {{ name }}</p>`, `<p>a {{}} b {{ }} c {{ title }}</p>`, `<p>{{ user.name }} &lt;{{ user.email }}&gt;</p>`, `<p>{{missing}}|{{ nilv }}|{{ html }}</p>`, `<p>a &amp; b {{ title }} "q" 'q'</p>`})
		}},
		{"fresh", func() string {
			return Pick(r, []string{`<p>{{ user.profile.city }} {{ user.profile.zip }}</p>`, `<p>{{ items[0].label }} {{ items[1].tags[0] }}</p>`, `<p>{{ m.k2 }} {{ m['k1'] }} {{ user["name"] }}</p>`, fmt.Sprintf(`<p>{{ user.profile.p%d }}{{ items[%d].id }}</p>`, r.Intn(50), r.Intn(4))})
		}},
		{"if", func() string {
			return Pick(r, []string{
				`<p v-if="flag">flag on {{ name }}</p><p v-else>flag off</p>`,
				`<div v-if="n == 2">two</div><div v-else-if="n == 3">three</div><div v-else>other {{ n }}</div>`,
				`<span v-if="!off">not off</span><span v-if="missing">never</span>`,
				`<p v-if="user.admin && flag">admin+flag</p><p v-else-if="user.admin || flag">either</p><p v-else>neither</p>`,
				`<template v-if="items"><em>has items</em></template>`,
			})
		}},
		{"for", func() string {
			return Pick(r, []string{
				`<ul><li v-for="item in items" :id="item.id">{{ item.label }}</li></ul>`,
				`<ol><li v-for="(i, item) in items">{{ i }}:{{ item.label }}<b v-if="item.inStock">in</b></li></ol>`,
				`<p v-for="x in empty">never {{ x }}</p><p v-else>empty list</p>`,
				`<div v-for="item in items" class="row" :class="cls"><span>{{ item.price }}</span></div>`,
				`<template v-for="item in items"><dt>{{ item.id }}</dt><dd>{{ item.label }}</dd></template>`,
			})
		}},
		{"nestedfor", func() string {
			return `<div v-for="item in items"><span v-for="t in item.tags" :data-t="t">{{ item.id }}-{{ t }}</span></div>`
		}},
		{"formap", func() string {
			return Pick(r, []string{`<ul><li v-for="v in m">{{ v }}</li></ul>`, `<p v-for="(i, v) in m" :data-i="i">{{ v }}</p>`})
		}},
		{"attrs", func() string {
			return Pick(r, []string{
				`<a :href="href" :title="title" :data-n="n" class="lnk" :class="cls">{{ name }}</a>`,
				`<img :src="href" :alt="name" :width="n" :data-x="user.name" :data-y="user.email"></img>`,
				`<input type="text" :value="name" :disabled="off" :required="flag" :data-a="cls" :data-b="title"></input>`,
				`<div id="st-{{ n }}" title="t {{ title }}" :lang="cls" v-bind:data-q="name">x</div>`,
				`<div :class="{active: flag, off: off, 'is-admin': user.admin}" class="base">c</div>`,
				`<div :class="cmap" class="s">class map</div>`, `<span :class="cmap">cm</span>`,
			})
		}},
		{"style", func() string {
			return Pick(r, []string{
				`<div style="color:blue;margin:0" :style="{color: 'red', fontSize: '12px'}">s</div>`,
				`<div style="color:blue;padding:1px;border:0" :style="sty">s2</div>`,
				`<div :style="{display: 'block', marginTop: '2px', color: 'black'}">s3</div>`,
				`<p style="a:1;b:2;c:3;d:4" :style="'b:9;e:5'">s4</p>`,
			})
		}},
		{"show", func() string {
			return Pick(r, []string{`<p v-show="off">hidden</p>`, `<p v-show="flag" style="color:red;margin:1px">maybe</p>`, `<p v-show="off" style="color:red;margin:1px;padding:2px">hidden styled</p>`, `<p v-show="n > 5" :title="name" style="x:1;y:2">cmp</p>`})
		}},
		{"vhtml", func() string {
			return Pick(r, []string{`<div v-html="html"></div>`, `<div v-html="html">replaced <b>child</b></div>`, `<template v-html="html"></template>`})
		}},
		{"vtext", func() string { return Pick(r, []string{`<p v-text="title">old</p>`, `<p v-text="html"></p>`}) }},
		{"pipes", func() string {
			return Pick(r, []string{`<p>{{ name | upper }} {{ title | lower }}</p>`, `<p>{{ title | lower | title }}</p>`, `<p>{{ items | len }} {{ missing | default("dflt") }}</p>`, `<p>{{ user | json }}</p>`, `<p>{{ name | trim | escape }} {{ n | string }} {{ num | int }}</p>`, `<p :title="name | upper">{{ html | escape }}</p>`,
				`<pre>{{ user | jsonPretty }}</pre>`, `<p>{{ items[0].tags | upper }} {{ items[1].tags | lower }} {{ user.fmonly }}</p>`, `<p>{{ n | type }} {{ name | type }} {{ items | type }} {{ missing | type }}</p>`, `<p>{{ m | jsonPretty }}</p>`})
		}},
		{"funcs", func() string {
			g.Eng.Funcs = true
			return Pick(r, []string{`<p>{{ n | double }}</p>`, `<p>{{ name | ctxfn }}</p>`, `<p>{{ name | wrap | upper }}</p>`, `<p>{{ join2(name, cls) }}</p>`})
		}},
		{"expr", func() string {
			return Pick(r, []string{`<p>{{ n + 1 }} {{ n * 2 > 4 }}</p>`, `<p>{{ flag ? "yes" : "no" }} {{ len(items) }}</p>`, `<p>{{ user.name + "!" }}</p>`, `<p>{{ n >= 2 && flag }}</p>`,
				`<p>{{ n == num }} {{ name == cls }} {{ n == depth }} {{ flag == off }}</p>`, `<p v-if="n == 3">n is three</p><p v-else-if="name == title">same</p><p v-else>{{ n != num }}</p>`,
				`<p>{{ keys(m) }} / {{ values(m) }}</p>`, `<template :ks="keys(m)"><i v-for="k in ks">{{ k }}</i></template>`, `<p :data-pairs="toPairs(m)">{{ len(toPairs(m)) }}</p>`})
		}},
		{"include", func() string {
			switch r.Intn(5) {
			case 0:
				return `<template include="` + g.needCard() + `" :title="title" body="static body"></template>`
			case 1:
				return `<template include="` + g.needCard() + `" title="T {{ name }}" :body="user.name"><p>slotted {{ name }}</p></template>`
			case 2:
				return `<template include="` + g.needBadge() + `" :label="name"></template>`
			case 3:
				return `<template include="` + g.needNested() + `"></template>`
			}
			return `<div v-for="item in items"><template include="` + g.needBadge() + `" :label="item.label"></template></div>`
		}},
		{"fmcomp", func() string { return `<template include="` + g.needFmComp() + `"></template>` }},
		{"slots", func() string {
			switch r.Intn(3) {
			case 0:
				return `<template include="` + g.needBox() + `"><p>body {{ name }}</p></template>`
			case 1:
				return `<template include="` + g.needBox() + `"><template #header><h2>H {{ title }}</h2></template><p>body</p><template v-slot:footer>F {{ n }}</template></template>`
			}
			return `<template include="` + g.needBox() + `"></template>`
		}},
		{"scoped", func() string {
			return `<template include="` + g.needList() + `" :items="items"><template v-slot="sp">{{ sp.index }}={{ sp.item.label }}</template></template>`
		}},
		{"shorthand", func() string {
			g.needCardX()
			return Pick(r, []string{`<card-x :heading="title"><p>inner {{ name }}</p></card-x>`, `<card-x heading="static"></card-x>`})
		}},
		{"once", func() string {
			m := g.onceMarker()
			if r.Chance(40) {
				// a component carrying its own v-once element, included once, twice or from a loop
				comp := "components/OnceBox.vuego"
				if !g.has(comp) {
					g.put(comp, `<div class="ob"><style v-once>.ob{}</style><b v-once>once-box</b><i>{{ label }}</i></div>`)
				}
				inc := `<template include="` + comp + `" :label="name"></template>`
				return Pick(r, []string{inc, inc + "\n" + inc, `<div v-for="item in items"><template include="` + comp + `" :label="item.label"></template></div>`})
			}
			return Pick(r, []string{`<style v-once>.` + m + `{}</style>`, `<div v-for="item in items"><b v-once>` + m + `</b><i>{{ item.id }}</i></div>`, `<p v-once>` + m + ` {{ name }}</p>`})
		}},
		{"tplvar", func() string {
			return Pick(r, []string{`<template :x="n+1"><i>{{ x }}</i></template>`, `<template y="static-y"><i>{{ y }}</i></template>`, `<template :z="user.name"><i>{{ z }}</i></template>`,
				// read before a root-level assignment: a root scope that outlives its render shows here
				`<p v-if="!greeted">welcome</p><template :greeted="true"></template><p v-if="greeted">again</p>`,
				`<i>[{{ visits }}]</i><template :visits="(visits ?? 0) + 1"></template><b>{{ visits }}</b>`})
		}},
		{"filefn", func() string {
			g.needSide()
			return Pick(r, []string{`<template :cfg="jsonFile('side/data.json')"><i>{{ cfg.k }} {{ cfg.nested.a }}</i></template>`, `<div v-html="file('side/raw.html')"></div>`, `<template :y="yamlFile('side/data.yml')"><i>{{ y.name }}</i></template>`})
		}},
		{"less", func() string {
			g.Eng.Less = true
			return `<style type="text/css+less">@c: #333; .a { color: @c; .b { margin: 0; } }</style>`
		}},
		{"vpre", func() string { return `<div v-pre><span>{{ not_evaluated }}</span><b :x="y">raw</b></div>` }},
		{"script", func() string {
			return Pick(r, []string{`<script>var t = "{{ name }}"; if (1 < 2 && t) {}</script>`, `<style>.x-{{ n }} { color: red; }</style>`})
		}},
		{"comment", func() string { return `<!-- a comment {{ name }} --><p>after comment</p>` }},
		{"config", func() string {
			// theme.yml + data/*.yml are read once when the engine is constructed and seed every template's data
			if !g.has("theme.yml") {
				g.put("theme.yml", "site_name: Site Name\npalette:\n  primary: \"#123456\"\n  accent: \"#abcdef\"\nmenu:\n  - home\n  - about\n")
				g.put("data/nav.yml", "nav:\n  - label: Home\n    url: /\n  - label: Docs\n    url: /docs\nsite_name: Overridden Name\n")
			}
			return Pick(r, []string{`<p class="cfg">{{ site_name }} {{ palette.primary }}</p>`, `<ul><li v-for="it in nav"><a :href="it.url">{{ it.label }}</a></li></ul>`, `<p v-for="m in menu">{{ m | upper }}</p>`})
		}},
		{"combo", func() string {
			// several directives and static attributes on one element, in a random order: the directives
			// edit one attribute list between them (v-show and :style both rewrite style, v-html / v-text
			// replace children, bound attributes are removed after evaluation)
			opts := []string{`class="cb"`, `style="color:red;margin:1px"`, `:class="cls"`, `:class="cmap"`, `:style="sty"`,
				`v-show="` + Pick(r, []string{"flag", "off", "!flag", "missing"}) + `"`, `:title="name"`, `title="static"`, `data-k="v"`, `:data-n="n"`,
				`v-if="` + Pick(r, []string{"flag", "!off", "items"}) + `"`, `v-for="item in items"`, `:id="cls"`, `:hidden="off"`, `:data-m="missing"`}
			content := Pick(r, []string{`v-html="html"`, `v-html="missing"`, `v-text="title"`, `v-text="missing"`, ``, ``})
			n := 2 + r.Intn(4)
			var attrs []string
			used := map[string]bool{}
			for len(attrs) < n {
				o := Pick(r, opts)
				key := strings.SplitN(o, "=", 2)[0]
				if used[key] {
					continue
				}
				used[key] = true
				attrs = append(attrs, o)
			}
			if content != "" {
				at := r.Intn(len(attrs) + 1)
				attrs = append(attrs[:at], append([]string{content}, attrs[at:]...)...)
			}
			tag := Pick(r, []string{"div", "p", "span", "section"})
			return "<" + tag + " " + strings.Join(attrs, " ") + ">default <b>text</b> {{ name }}</" + tag + ">"
		}},
		{"scale", func() string {
			// boundaries and sizes that small programs never reach: element nesting around depth 128 (indentation
			// column 256), a slot that hands ten props to its content (a pooled scope beyond eight entries), unbound
			// names that only a leaked scope would bind, a wide attribute list
			switch r.Intn(5) {
			case 0:
				n := Pick(r, []int{126, 127, 128, 129, 140, 205})
				return strings.Repeat("<div>", n) + "<i>{{ name }}</i>" + strings.Repeat("</div>", n)
			case 1:
				comp := "components/ListWide.vuego"
				if !g.has(comp) {
					g.put(comp, `<ul class="wide"><li v-for="(index, item) in items"><slot :item="item" :index="index" :pa="1" :pb="2" :pc="3" :pd="4" :pe="5" :pf="6" :pg="7" :ph="8" :pi="name"></slot></li></ul>`)
				}
				if r.Bool() {
					// un-named slot scope: every prop becomes a binding of its own in the content's scope
					return `<template include="` + comp + `" :items="items"><template #default><b>{{ index }}/{{ pa }}{{ ph }}{{ pi }}</b></template></template>`
				}
				return `<template include="` + comp + `" :items="items"><template v-slot="sp">{{ sp.index }}={{ sp.item.label }}/{{ sp.ph }}{{ sp.pi }}</template></template>`
			case 2:
				// names nothing binds here: only a scope that kept another render's (or another element's) bindings would;
				// once at the top level, once inside a loop (a pushed, pooled scope)
				return `<p class="unbound">[{{ item }}|{{ index }}|{{ sp }}|{{ pa }}|{{ ph }}|{{ pi }}|{{ x }}|{{ label }}]</p><p v-for="u in items">[{{ pa }}|{{ pb }}|{{ ph }}|{{ pi }}|{{ index }}|{{ label }}]</p>`
			case 3:
				var at []string
				for i := 0; i < 14; i++ {
					at = append(at, fmt.Sprintf(`:data-a%d="n + %d"`, i, i))
				}
				return `<div ` + strings.Join(at, " ") + `>wide</div>`
			}
			return `<ul><li v-for="(i, item) in items" :id="item.id"><span v-for="t in item.tags">{{ i }}:{{ t }}</span></li></ul>`
		}},
		{"lessimport", func() string {
			g.Eng.Less = true
			if !g.has("side/vars.less") {
				g.put("side/vars.less", "@base: #336699;\n.mix() { border: 1px solid @base; }\n")
			}
			return `<style type="text/css+less">@import "side/vars.less"; .box { color: @base; .mix(); }</style>`
		}},
	}
	var avail []sn
	for _, s := range cat {
		if g.on(s.feat) {
			avail = append(avail, s)
		}
	}
	if len(avail) == 0 {
		return `<p>{{ title }}</p>`
	}
	return Pick(r, avail).f()
}

// body builds a page body of n snippets.
func (g *Gen) body(n int, mark string) string {
	var parts []string
	for i := 0; i < n; i++ {
		parts = append(parts, g.snippet())
	}
	return g.wrap(parts, mark)
}

// wrap lays the snippets out as a template: one root element or several top-level elements,
// with or without a trailing newline (a trailing whitespace text node is a top-level node too).
func (g *Gen) wrap(parts []string, mark string) string {
	switch g.R.Intn(5) {
	case 0, 1:
		return "<main data-mark=\"" + mark + "\">\n" + strings.Join(parts, "\n") + "\n</main>\n"
	case 2:
		return "<main data-mark=\"" + mark + "\">\n" + strings.Join(parts, "\n") + "\n</main>"
	case 3:
		return "<i data-mark=\"" + mark + "\"></i>\n" + strings.Join(parts, "\n") + "\n"
	}
	return "<i data-mark=\"" + mark + "\"></i>\n" + strings.Join(parts, "\n")
}

// failing snippets: each makes the render return an error.
func (g *Gen) failing() (string, string) {
	r := g.R
	switch r.Intn(12) {
	case 11: // a LESS import cycle: the compilation must fail, and must leave nothing behind for later compilations
		g.Eng.Less = true
		if !g.has("loop.less") {
			g.put("loop.less", "@import \"loop.less\";\n.l { color: blue; }\n")
		}
		return "<style type=\"text/css+less\">\n@import \"loop.less\";\n.q { color: red; }\n</style>", "less-import-cycle"
	case 10: // a LESS source the compiler chokes on (it panics inside; the render must report an error and leave nothing locked)
		g.Eng.Less = true
		return "<style type=\"text/css+less\">\n.w {\n  w: hsvsaturation(rgb();\n}\n</style>", "less-compiler-panic"
	case 7: // the failure comes after text and an interpolation of the same text node
		return `<p>Card of {{ name }}: {{ n | nosuchfilter }} tail</p>`, "unknown-filter-late-in-text"
	case 8: // ... of the same attribute value
		return `<a title="t {{ name }} / {{ n | nosuchfilter }}" href="#">x</a>`, "unknown-filter-late-in-attr"
	case 9:
		g.Eng.Funcs = true
		return `<p>{{ title }} and {{ user.name }} then {{ n | failfn }}</p>`, "failing-func-late-in-text"
	case 0:
		return `<p>{{ name | nosuchfilter }}</p>`, "unknown-filter"
	case 1:
		return `<template include="components/Missing.vuego"></template>`, "missing-include"
	case 2:
		return `<template include="` + g.needCard() + `" body="no title"></template>`, "unmet-required"
	case 3:
		return `<p v-for="broken">x</p>`, "bad-for"
	case 4:
		g.Eng.Funcs = true
		return `<p>{{ n | failfn }}</p>`, "failing-func"
	case 5:
		g.needSide()
		return `<div v-html="file('side/none.html')"></div>`, "missing-file-fn"
	}
	return `<a :href="name | nosuch2">x</a>`, "unknown-filter-attr"
}

// FailingBody places a failing snippet early, late, inside a loop or inside an include.
func (g *Gen) FailingBody(n int, mark string) (string, string) {
	bad, kind := g.failing()
	place := g.R.Intn(4)
	var parts []string
	for i := 0; i < n; i++ {
		parts = append(parts, g.snippet())
	}
	switch place {
	case 0:
		parts = append([]string{bad}, parts...)
		kind += "/early"
	case 1:
		parts = append(parts, bad)
		kind += "/late"
	case 2:
		parts = append(parts, `<div v-for="item in items"><i>{{ item.id }}</i>`+bad+`</div>`)
		kind += "/loop"
	case 3:
		name := "components/Bad.vuego"
		g.put(name, `<div class="bad"><p>before</p>`+bad+`</div>`)
		parts = append(parts, `<template include="`+name+`"></template>`)
		kind += "/include"
	}
	return g.wrap(parts, mark), kind
}

// Layouts adds layout files. base: whether layouts/base.vuego exists (default layout).
func (g *Gen) Layouts(base bool) {
	if base {
		g.put("layouts/base.vuego", "<html><head><title>{{ title }}</title></head><body class=\"base\"><div id=\"main\" v-html=\"content\"></div><footer>base-footer {{ name }}</footer></body></html>")
	}
	g.put("layouts/post.vuego", "---\nlayout: plain\npostvar: pv\n---\n<article class=\"post\"><h2>{{ postvar }}</h2><div v-html=\"content\"></div></article>")
	g.put("layouts/plain.vuego", "<section class=\"plain\">"+g.snippetSafe()+"<div v-html=\"content\"></div></section>")
}

func (g *Gen) snippetSafe() string {
	return Pick(g.R, []string{`<h5>{{ title }}</h5>`, `<nav :data-n="n">{{ name | upper }}</nav>`, ``})
}

// PageFile wraps a body with optional front-matter.
func PageFile(body string, fm map[string]string) string {
	if len(fm) == 0 {
		return body
	}
	var ks []string
	for k := range fm {
		ks = append(ks, k)
	}
	sort.Strings(ks)
	var b strings.Builder
	b.WriteString("---\n")
	for _, k := range ks {
		fmt.Fprintf(&b, "%s: %s\n", k, fm[k])
	}
	b.WriteString("---\n")
	b.WriteString(body)
	return b.String()
}

// FileSpecs converts the generated files to specs with mtimes.
func (g *Gen) FileSpecs(baseMtime int64) []FileSpec {
	var out []FileSpec
	for i, n := range g.Order {
		fsp := FileSpec{Name: n}
		for v, c := range g.Files[n] {
			fsp.Versions = append(fsp.Versions, FileVersion{Content: c, MtimeNs: baseMtime + int64(i)*1_000_000 + int64(v)*1_000_000_000})
		}
		out = append(out, fsp)
	}
	return out
}

// StripFrontMatter returns the body of a page file (string entry points take no front-matter).
func StripFrontMatter(s string) string {
	if !strings.HasPrefix(s, "---") {
		return s
	}
	rest := s[3:]
	i := strings.Index(rest, "\n---")
	if i < 0 {
		return s
	}
	rest = rest[i+4:]
	return strings.TrimPrefix(rest, "\n")
}

// randomKernel draws the simulator knobs of a sequential run.
func randomData(r *Rand, tag string) DataSpec {
	d := DataSpec{Shape: Pick(r, []string{"map", "map", "map", "map", "struct", "struct", "ptr", "ptr", "nil", "emptymap"}), Tag: tag, Items: r.Intn(4), Flag: r.Bool(), Variant: r.Intn(6)}
	if d.Shape == "map" && r.Chance(35) {
		d.Alt = 1 + r.Intn(2)
	}
	// scale knobs, rarely: long lists (pooled scope maps and buffers beyond their initial sizes, ids past one digit),
	// maps with more than eight entries, long strings
	if r.Chance(5) {
		d.Items = Pick(r, []int{9, 11, 17, 40, 130})
	}
	if r.Chance(5) {
		d.Big = true
	}
	return d
}

func randomEngine(r *Rand, base EngineSpec) EngineSpec {
	base.Proc = r.Chance(30)
	base.ReadFileFS = r.Chance(70)
	base.StatFS = r.Chance(70)
	base.ReadDirFS = r.Chance(50)
	switch r.Intn(4) {
	case 1:
		base.PathFill = 250
	case 2:
		base.PathFill = 300
	}
	base.Overlay = r.Chance(8)
	return base
}
