package h

import (
	"fmt"
	"net/url"
	"strings"
	"time"
)

// Typed data shapes handed to render calls (the property names map, struct and pointer data).

type Profile struct {
	City string `json:"city"`
	Zip  int    `json:"zip"`
}

type User struct {
	Name    string  `json:"name"`
	Email   string  `json:"email"`
	Profile Profile `json:"profile"`
	Admin   bool    `json:"admin"`
}

type Item struct {
	ID      int      `json:"id"`
	Label   string   `json:"label"`
	Tags    []string `json:"tags"`
	Price   float64  `json:"price"`
	InStock bool     `json:"inStock"`
}

type PageData struct {
	Title  string          `json:"title"`
	Name   string          `json:"name"`
	N      int             `json:"n"`
	Flag   bool            `json:"flag"`
	Off    bool            `json:"off"`
	Items  []Item          `json:"items"`
	User   User            `json:"user"`
	HTML   string          `json:"html"`
	Cls    string          `json:"cls"`
	M      map[string]any  `json:"m"`
	Num    float64         `json:"num"`
	Empty  []string        `json:"empty"`
	Depth  int             `json:"depth"`
	Href   string          `json:"href"`
	Sty    string          `json:"sty"`
	Cmap   map[string]bool `json:"cmap"`
	hidden string
}

// RichBase and Rich are root data with the struct features whose treatment differs between Lookup and EnvMap:
// an embedded struct (promoted fields), a nil pointer to a struct, a struct-typed field, a field tagged json:"-".
type RichBase struct {
	ID   int `json:"id"`
	Kind string
}

type Rich struct {
	RichBase
	Title string   `json:"title"`
	Ptr   *Profile `json:"ptr"`
	Sub   Profile  `json:"sub"`
	Skip  string   `json:"-"`
	N     int      `json:"n"`
	Hold  RichHold `json:"hold"`
	shh   string   `json:"shh"` // unexported, but tagged: absent by either name
}

// RichHold is a nested struct with a nil and a non-nil pointer-to-struct field.
type RichHold struct {
	P *Profile `json:"p"`
	Q *Profile `json:"q"`
}

// BuildData builds the data value for an operation. Every string carries the
// operation's tag so that a value surfacing in another operation's output is attributable.
func BuildData(d DataSpec) any {
	tag := d.Tag
	items := make([]Item, 0, d.Items)
	for i := 0; i < d.Items; i++ {
		items = append(items, Item{
			ID: i + 1, Label: fmt.Sprintf("label%d-%s", i+1, tag),
			Tags:  []string{fmt.Sprintf("t%da-%s", i+1, tag), fmt.Sprintf("t%db", i+1)},
			Price: float64(i)*1.5 + 0.25, InStock: (i+d.Variant)%2 == 0,
		})
	}
	pd := PageData{
		Title: "Title " + tag, Name: "name-" + tag, N: 2 + d.Variant%3, Flag: d.Flag, Off: false,
		Items: items,
		User:  User{Name: "user-" + tag, Email: tag + "@example.test", Profile: Profile{City: "city-" + tag, Zip: 1000 + d.Variant}, Admin: d.Variant%2 == 1},
		HTML:  "<b>bold-" + tag + "</b>", Cls: "cls-" + tag,
		M:   map[string]any{"k1": "v1-" + tag, "k2": "v2-" + tag, "k3": "v3-" + tag},
		Num: 4.5, Empty: []string{}, Depth: d.Depth, Href: "/p/" + tag + "?a=1&b=2", Sty: "color:green;margin:" + fmt.Sprint(d.Variant) + "px",
		hidden: "hidden-" + tag,
		Cmap:   map[string]bool{"active": true, "big": d.Flag, "off": false, "wide": true, "zebra": d.Variant%2 == 0},
	}
	if d.Big {
		for i := 4; i <= 13; i++ {
			pd.M[fmt.Sprintf("k%d", i)] = fmt.Sprintf("v%d-%s", i, tag)
			pd.Cmap[fmt.Sprintf("c%d", i)] = i%2 == 0
		}
		pd.HTML = "<b>bold-" + tag + "</b>" + strings.Repeat("<i>pad</i>", 40)
	}
	switch d.Shape {
	case "rich":
		return Rich{RichBase: RichBase{ID: 7 + d.Variant, Kind: "kind-" + tag}, Title: "Title " + tag, Sub: Profile{City: "sub-" + tag, Zip: 7}, Skip: "skip-" + tag, N: 3, Hold: RichHold{Q: &Profile{City: "q-" + tag, Zip: 9}}, shh: "shh"}
	case "richptr":
		return &Rich{RichBase: RichBase{ID: 7 + d.Variant, Kind: "kind-" + tag}, Title: "Title " + tag, Sub: Profile{City: "sub-" + tag, Zip: 7}, Skip: "skip-" + tag, N: 3, Hold: RichHold{Q: &Profile{City: "q-" + tag, Zip: 9}}, shh: "shh"}
	case "strmap":
		return map[string]string{"a": "sa-" + tag, "title": "st-" + tag}
	case "intmap":
		return map[int]string{1: "one", 2: "two"}
	case "hostile":
		// wrong types in the positions the templates use as strings, lists, numbers and maps
		hv := []any{42, "notalist-" + tag, nil, 3.5, []any{1, "x"}, map[string]any{"k": "v"}, true, pd, &pd, []string{"a"}, map[string]string{"a": "b"}, [2]int{1, 2},
			(*url.URL)(nil), (*time.Time)(nil), time.Duration(1500) * time.Millisecond, &url.URL{Scheme: "https", Host: "example.test", Path: "/" + tag}}
		pick := func(i int) any { return hv[(d.Variant*7+i*5)%len(hv)] }
		return map[string]any{
			"title": pick(0), "name": pick(1), "n": pick(2), "flag": pick(3), "off": pick(4), "items": pick(5), "user": pick(6),
			"html": pick(7), "cls": pick(8), "m": pick(9), "num": pick(10), "empty": pick(11), "depth": pick(12), "href": pick(13), "sty": pick(14),
		}
	case "nil":
		return nil
	case "emptymap":
		return map[string]any{}
	case "struct":
		return pd
	case "ptr":
		return &pd
	}
	its := make([]any, 0, len(items))
	for _, it := range items {
		tags := make([]any, 0, len(it.Tags))
		for _, t := range it.Tags {
			tags = append(tags, t)
		}
		its = append(its, map[string]any{"id": it.ID, "label": it.Label, "tags": tags, "price": it.Price, "inStock": it.InStock})
	}
	var n, flag, num, name any = pd.N, pd.Flag, pd.Num, pd.Name
	switch d.Alt {
	case 1: // numbers as strings, booleans as ints
		n, flag, num = fmt.Sprint(pd.N), 1, "4.5"
		if !pd.Flag {
			flag = 0
		}
	case 2: // other numeric types, a number where a string is usual
		n, num, name = int64(pd.N), 4, 77
	}
	cmap := map[string]any{}
	for k, v := range pd.Cmap {
		cmap[k] = v
	}
	return map[string]any{
		"cmap":  cmap,
		"title": pd.Title, "name": name, "n": n, "flag": flag, "off": pd.Off, "num": num,
		"items": its,
		"user": map[string]any{"name": pd.User.Name, "email": pd.User.Email, "admin": pd.User.Admin,
			"profile": map[string]any{"city": pd.User.Profile.City, "zip": pd.User.Profile.Zip}},
		"html": pd.HTML, "cls": pd.Cls, "m": pd.M, "empty": []any{}, "depth": pd.Depth, "href": pd.Href, "sty": pd.Sty,
	}
}
