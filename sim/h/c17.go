package h

import (
	"encoding/json"
	"fmt"
	"math"
	"net/url"
	"reflect"
	"sort"
	"strconv"
	"strings"
	"time"

	vuego "github.com/titpetric/vuego"
	"github.com/titpetric/vuego/simrt"
)

// C17 (scope-stack half) — the variable stack against a reference model, under
// every recycling behaviour of the scope-map pool and a filled path cache.
//
// One run drives 1-4 stacks (map, struct and pointer root data) with one seeded
// operation stream; popped scope maps travel between the stacks through the
// simulated pool (LIFO/FIFO/random, poison on Put). The model is a slice of
// plain maps plus the root value.

var c17Names = []string{"a", "b", "c", "title", "name", "n", "user", "Title", "hidden", "zz"}

// c17Exotic: names whose resolution against root data is a matter of reflection rules (promoted fields of an
// embedded struct, its type name, a nil pointer field, a struct field, a field tagged json:"-", entries of a
// non-struct root value). For them the model does not say what Lookup must return; only the agreement of
// EnvMap with whatever Lookup returns is checked.
// c17Wide: names used only by the "setmany" operation (a scope with more than eight bindings); part of the
// universe that is compared after every operation, so a binding that outlives its scope is seen.
var c17Wide = []string{"w0", "w1", "w2", "w3", "w4", "w5", "w6", "w7", "w8", "w9", "w10", "w11"}

// c17Long: keys longer than 64 bytes that differ only in their last byte.
var c17Long = strings.Repeat("k", 70)

var c17Exotic = []string{"id", "ID", "Kind", "RichBase", "ptr", "sub", "-", "Skip", "1", "hold", "shh"}

type mStack struct {
	scopes []map[string]any
	root   any
}

func (m *mStack) lookup(name string) (any, bool) {
	for i := len(m.scopes) - 1; i >= 0; i-- {
		if v, ok := m.scopes[i][name]; ok {
			return v, true
		}
	}
	return rootField(m.root, name)
}

// rootField: exported struct field by Go name or JSON tag; key of a map root value.
func rootField(root any, name string) (any, bool) {
	if root == nil || name == "" {
		return nil, false
	}
	rv := reflect.ValueOf(root)
	for rv.Kind() == reflect.Ptr {
		if rv.IsNil() {
			return nil, false
		}
		rv = rv.Elem()
	}
	switch rv.Kind() {
	case reflect.Struct:
		rt := rv.Type()
		for i := 0; i < rt.NumField(); i++ {
			f := rt.Field(i)
			if !f.IsExported() {
				continue
			}
			tag := strings.Split(f.Tag.Get("json"), ",")[0]
			if f.Name == name || tag == name {
				return rv.Field(i).Interface(), true
			}
		}
	case reflect.Map:
		if rv.Type().Key().Kind() == reflect.String {
			v := rv.MapIndex(reflect.ValueOf(name))
			if v.IsValid() {
				return v.Interface(), true
			}
		}
	}
	return nil, false
}

func (m *mStack) env() map[string]any {
	out := map[string]any{}
	for _, s := range m.scopes {
		for k, v := range s {
			out[k] = v
		}
	}
	return out
}

// resolve: first segment through lookup, the rest through maps and slices only (model of the simple cases).
func (m *mStack) resolve(path []string) (any, bool) {
	cur, ok := m.lookup(path[0])
	if !ok || cur == nil {
		return nil, false
	}
	for _, p := range path[1:] {
		switch c := cur.(type) {
		case map[string]any:
			cur = c[p]
		case []any:
			i, err := strconv.Atoi(p)
			if err != nil || i < 0 || i >= len(c) {
				return nil, false
			}
			cur = c[i]
		default:
			return nil, false
		}
		if cur == nil {
			return nil, false
		}
	}
	return cur, true
}

// agree: equal up to representation (a struct and its JSON-tag map are the same value).
func agree(a, b any) bool {
	if reflect.DeepEqual(a, b) {
		return true
	}
	ja, ea := json.Marshal(a)
	jb, eb := json.Marshal(b)
	if ea != nil || eb != nil {
		return fmt.Sprint(a) == fmt.Sprint(b)
	}
	var ua, ub any
	if json.Unmarshal(ja, &ua) != nil || json.Unmarshal(jb, &ub) != nil {
		return string(ja) == string(jb)
	}
	return reflect.DeepEqual(ua, ub)
}

// Typed catalogue: one Go value holding every container kind the statement names (maps, slices, arrays,
// pointers, structs by field name or JSON tag), bound under "ty" in the root scope of every stack, and a table
// of paths with the result ordinary Go indexing gives - written out by hand from the Go value, not computed by
// any resolver. Only paths the statement settles are listed (missing key, out-of-range or negative index, nil
// pointer, unexported field => absent; everything else => the element).
type tyInner struct {
	Name   string `json:"name"`
	N      int    `json:"n"`
	hidden string
	secret string `json:"secret"` // unexported, but tagged
}
type tyBase struct {
	Kind string `json:"kind"`
}
type tyEmb struct {
	*tyBase
	Title string `json:"title"`
}
type tyVal struct {
	SM     map[string]string            `json:"sm"`
	SS     []string                     `json:"ss"`
	Arr    [2]int                       `json:"arr"`
	P      *tyInner                     `json:"p"`
	NilP   *tyInner                     `json:"nilp"`
	PP     **tyInner                    `json:"pp"`
	Emb    tyEmb                        `json:"emb"`
	Files  map[string]any               `json:"files"`
	Link   *url.URL                     `json:"link"`
	URL    *url.URL                     `json:"url"`
	Dur    time.Duration                `json:"dur"`
	IM     map[string]int               `json:"im"`
	Nested map[string]map[string]string `json:"nested"`
	LS     []map[string]string          `json:"ls"`
	NaN    map[float64]string           `json:"nan"`
}

func tyValue() *tyVal {
	in := &tyInner{Name: "in", N: 3, hidden: "h", secret: "s"}
	return &tyVal{
		SM: map[string]string{"k": "v", "empty": ""}, SS: []string{"x", "y"}, Arr: [2]int{7, 8}, P: in, PP: &in,
		Emb:    tyEmb{Title: "t"},
		URL:    &url.URL{Scheme: "https", Host: "example.test", Path: "/x"},
		Dur:    1500 * time.Millisecond,
		Files:  map[string]any{"index.html": "the page", "index": map[string]any{"html": "IMPOSTOR"}},
		IM:     map[string]int{"one": 1, "zero": 0},
		Nested: map[string]map[string]string{"a": {"b": "ab"}},
		LS:     []map[string]string{{"k": "ls0"}},
		NaN:    map[float64]string{math.NaN(): "nan", 1: "one"},
	}
}

type tyCase struct {
	path string
	want any
	ok   bool
}

var tyTable = []tyCase{
	{"ty.sm.k", "v", true}, {"ty.sm.nokey", nil, false}, {`ty.sm["nokey"]`, nil, false}, {"ty.sm['k']", "v", true}, {"ty.sm.empty", "", true},
	{"ty.ss[1]", "y", true}, {"ty.ss[2]", nil, false}, {"ty.ss[-1]", nil, false}, {"ty.ss.0", "x", true},
	{"ty.ss[18446744073709551616]", nil, false}, {"ty.ss[18446744073709551617]", nil, false}, {"ty.ss[9223372036854775808]", nil, false}, {"ty.arr[4294967297]", nil, false},
	{"ty.arr[1]", 8, true}, {"ty.arr[2]", nil, false}, {"ty.arr[-1]", nil, false},
	{"ty.p.name", "in", true}, {"ty.P.Name", "in", true}, {"ty.p.n", 3, true}, {"ty.p.hidden", nil, false}, {"ty.p.secret", nil, false}, {"ty.p.nofield", nil, false},
	{"ty.nilp.name", nil, false}, {"ty.pp.name", "in", true},
	{"ty.emb.title", "t", true}, {"ty.emb.Kind", nil, false}, {"ty.Emb.Title", "t", true},
	{`ty.files["index.html"]`, "the page", true}, {`ty.files['index.html']`, "the page", true}, {`ty.files["about.html"]`, nil, false}, {"ty.files.index.html", "IMPOSTOR", true},
	{"ty.im.one", 1, true}, {"ty.im.zero", 0, true}, {"ty.im.none", nil, false},
	{"ty.nested.a.b", "ab", true}, {"ty.nested.a.zz", nil, false}, {"ty.nested.zz.b", nil, false},
	{"ty.ls[0].k", "ls0", true}, {"ty.ls[0].nokey", nil, false}, {"ty.ls[1].k", nil, false},
}

func c17Value(r *Rand, tag string) any {
	switch r.Intn(7) {
	case 6:
		return nil // a name bound to nil shadows outer bindings: lookup finds (nil, true)
	case 0:
		return r.Intn(100)
	case 1:
		return fmt.Sprintf("s%d-%s", r.Intn(100), tag)
	case 2:
		return map[string]any{"b": fmt.Sprintf("nb%d", r.Intn(100)), "c": []any{1, "two", map[string]any{"d": "deep"}}, "b c": "with-blank", "bc": "without-blank",
			c17Long + "A": "long-A", c17Long + "B": map[string]any{"z": "long-B-z"}}
	case 3:
		return []any{fmt.Sprintf("e%d", r.Intn(10)), r.Intn(10), "x"}
	case 4:
		return strconv.Itoa(r.Intn(1000))
	}
	return r.Bool()
}

func genC17(seed uint64, run int, tier string) *RunSpec {
	r := NewRand(seed, run)
	spec := &RunSpec{Property: "C17", Family: "c17-stack", Seed: seed, Run: run}
	st := &StackSpec{Names: append(append([]string{}, c17Names...), c17Wide...)}
	ns := 1 + r.Intn(4)
	for i := 0; i < ns; i++ {
		d := DataSpec{Shape: Pick(r, []string{"map", "struct", "ptr", "nil", "structmap", "map", "struct", "rich", "richptr", "strmap", "intmap", "ptrptr"}), Tag: fmt.Sprintf("r%d", i), Items: 2, Variant: i}
		st.Roots = append(st.Roots, d)
	}
	n := 10 + r.Intn(50)
	if tier == "thorough" {
		n = 10 + r.Intn(150)
	}
	depth := make([]int, 8)
	nstacks := ns
	pushed := 0
	for i := 0; i < n; i++ {
		s := r.Intn(nstacks)
		name := Pick(r, c17Names[:7])
		if r.Chance(15) {
			name = Pick(r, c17Names)
		}
		op := StackOp{S: s}
		switch k := r.Intn(100); {
		case k < 14:
			op.Op = "pushnil"
			depth[s]++
		case k < 22:
			op.Op = "pushmap"
			op.Map = map[string]any{Pick(r, c17Names[:5]): c17Value(r, "pm"), "pushed": pushed}
			pushed++
			depth[s]++
		case k < 40:
			if depth[s] == 0 {
				op.Op = "lookup"
				op.Name = name
			} else {
				op.Op = "pop"
				depth[s]--
			}
		case k < 58:
			op.Op = "set"
			op.Name = name
			op.Val = c17Value(r, fmt.Sprintf("s%d", s))
			if r.Chance(8) {
				op.Op = "setmany" // nine to twelve bindings in the innermost scope: a (pooled) scope map beyond eight entries
				op.Name = ""
				op.Val = 9 + r.Intn(4)
			}
		case k < 70:
			op.Op = "lookup"
			op.Name = name
		case k < 78:
			op.Op = "resolve"
			op.Path = Pick(r, []string{"a.b", "a.c[0]", "a.c[2].d", "b[1]", "c.b", "a.c[9]", "a['b']", "user.name", "a.c[-1]", "a.c[18446744073709551616]", "a.c[18446744073709551618]", "zz.q",
				"a." + c17Long + "A", "a." + c17Long + "B.z", "a['" + c17Long + "A']", "a." + c17Long + "C", "c." + c17Long + "B.z", "c." + c17Long + "A", "a.b.c", "a['b c']", "a['bc']", "c['b c']", "c['bc']"})
			if r.Chance(30) {
				op.Path = fmt.Sprintf("a.p%d", r.Intn(400)) // fresh paths (path cache misses)
			} else if r.Chance(35) {
				op.Path = tyTable[r.Intn(len(tyTable))].path // typed containers
			}
		case k < 84:
			op.Op = "envmap"
		case k < 88:
			if nstacks < 8 {
				op.Op = "copy"
				depth[nstacks] = 0
				nstacks++
			} else {
				op.Op = "envmap"
			}
		case k < 92:
			op.Op = "foreach"
			op.Path = Pick(r, []string{"a.c", "b", "c", "a", "ty.nan", "ty.ss", "ty.sm"})
			op.Name = Pick(r, []string{"it", "a", "b"})
		case k < 95:
			op.Op = "getstring"
			op.Path = Pick(r, []string{"a", "b", "c", "a.b", "n"})
			if r.Chance(25) {
				op.Path = Pick(r, []string{"ty.link", "ty.sm.nokey", "ty.sm.k", "ty.p.name", "ty.nilp", "ty.url", "ty.dur", "ty.p.n"})
			}
		case k < 97:
			op.Op = "getint"
			op.Path = Pick(r, []string{"a", "b", "c", "n"})
		default:
			op.Op = "touchold" // the caller writes to a map it pushed earlier (and that has been popped since)
			op.Name = Pick(r, c17Names[:5])
			op.Val = fmt.Sprintf("touched%d", i)
		}
		st.Ops = append(st.Ops, op)
	}
	spec.Stack = st
	spec.Kernel = randomKernelSeq(r)
	spec.Kernel.Pool.Poison = r.Chance(80)
	if spec.Kernel.Pool.Mode == "fresh" && r.Chance(70) {
		spec.Kernel.Pool.Mode = "lifo"
	}
	spec.Engine.PathFill = Pick(r, []int{0, 0, 250, 300})
	return spec
}

func c17Root(d DataSpec) (map[string]any, any) {
	m, root := c17RootPlain(d)
	if m != nil {
		m["ty"] = tyValue()
	}
	return m, root
}

func c17RootPlain(d DataSpec) (map[string]any, any) {
	switch d.Shape {
	case "nil":
		return nil, nil
	case "struct", "ptr", "rich", "richptr", "strmap", "intmap":
		return map[string]any{}, BuildData(d)
	case "ptrptr": // a pointer to a pointer to the struct
		dd := d
		dd.Shape = "ptr"
		p := BuildData(dd).(*PageData)
		return map[string]any{}, &p
	case "structmap": // what the render entry points build: the struct's JSON-tag map as root scope plus the struct
		dd := d
		dd.Shape = "struct"
		dm := d
		dm.Shape = "map"
		return BuildData(dm).(map[string]any), BuildData(dd)
	}
	// root scope and root data are equal but distinct maps (no aliasing introduced by the harness)
	return BuildData(d).(map[string]any), BuildData(d)
}

func execC17(spec *RunSpec) *Result {
	res := &Result{Run: spec.Run}
	simrt.ResetGlobals()
	simrt.Begin(spec.Kernel)
	if spec.Engine.PathFill > 0 {
		st := vuego.NewStack(map[string]any{"pf": map[string]any{}})
		for i := 0; i < spec.Engine.PathFill; i++ {
			st.Resolve(fmt.Sprintf("pf.fill%d", i))
		}
	}
	var real []*vuego.Stack
	var model []*mStack
	for _, d := range spec.Stack.Roots {
		rm, rd := c17Root(d)
		mm, md := c17Root(d)
		real = append(real, vuego.NewStackWithData(rm, rd))
		if mm == nil {
			mm = map[string]any{}
		}
		model = append(model, &mStack{scopes: []map[string]any{mm}, root: md})
	}
	type pushedMap struct {
		m      map[string]any
		popped bool
		s      int
		depth  int
	}
	var pushedMaps []*pushedMap
	h := hashBytes()
	fail := func(i int, op StackOp, class, sig, format string, a ...any) {
		c := cloneSpec(spec)
		c.Stack.Ops = c.Stack.Ops[:i+1]
		res.violateSpec(c, "C17", class, sig, "op %d %s(stack %d, %s%s): %s", i, op.Op, op.S, op.Name, op.Path, fmt.Sprintf(format, a...))
	}
	checkAll := func(i int, op StackOp) {
		// cross-invariants after every operation, for every live stack and every name of the universe
		for s := range real {
			env := real[s].EnvMap()
			if _, bad := env[simrt.PoisonKey]; bad {
				fail(i, op, "poison-visible", "a pooled (already Put) map is still part of a stack", "stack %d EnvMap shows the pool's poison key", s)
			}
			for _, n := range c17Exotic {
				if exoticRoot(model[s].root) == "" {
					break
				}
				if _, bound := model[s].env()[n]; bound {
					continue
				}
				rv, rok := real[s].Lookup(n)
				ev, eok := env[n]
				if eok != rok || (rok && !agree(ev, rv)) {
					fail(i, op, "envmap-mismatch", "EnvMap disagrees with Lookup ("+exoticClass(n)+", root "+exoticRoot(model[s].root)+")", "stack %d EnvMap()[%q] = (%v,%v) but Lookup gives (%v,%v)", s, n, ev, eok, rv, rok)
				}
			}
			for _, n := range spec.Stack.Names {
				mv, mok := model[s].lookup(n)
				if exoticRoot(model[s].root) == "non-struct value" {
					// a map/slice as root data: what the fallback finds there is reflection-rule territory too
					if _, bound := model[s].env()[n]; !bound {
						mv, mok = real[s].Lookup(n)
					}
				}
				rv, rok := real[s].Lookup(n)
				if mok != rok || (mok && !agree(mv, rv)) {
					fail(i, op, "lookup-mismatch", "Lookup disagrees with the scope-stack model ("+nameClass(n)+")", "stack %d Lookup(%q) = (%v,%v), model (%v,%v)", s, n, rv, rok, mv, mok)
					continue
				}
				ev, eok := env[n]
				if eok != mok || (mok && !agree(ev, mv)) {
					nc, rc := nameClass(n), rootClass(model[s].root)
					if exoticRoot(model[s].root) == "non-struct value" {
						nc, rc = "entry of a non-struct root value", "non-struct value"
					}
					fail(i, op, "envmap-mismatch", "EnvMap disagrees with Lookup ("+nc+", root "+rc+")", "stack %d EnvMap()[%q] = (%v,%v) but Lookup gives (%v,%v)", s, n, ev, eok, mv, mok)
				}
			}
		}
	}
	func() {
		defer func() {
			if r := recover(); r != nil {
				if _, ok := r.(simrt.StepOverrun); ok {
					res.addStat("c11_class_events", 1)
					return
				}
				i := int(res.Stats["ops"])
				var op StackOp
				if i < len(spec.Stack.Ops) {
					op = spec.Stack.Ops[i]
				}
				fail(i, op, "panic", "stack operation panicked: "+panicSite(), "panic: %v", r)
			}
		}()
		for i, op := range spec.Stack.Ops {
			res.Stats = ensure(res.Stats)
			res.Stats["ops"] = int64(i)
			if op.S >= len(real) {
				continue
			}
			rs, ms := real[op.S], model[op.S]
			switch op.Op {
			case "pushnil":
				rs.Push(nil)
				ms.scopes = append(ms.scopes, map[string]any{})
			case "pushmap":
				m1, m2 := copyMap(op.Map), copyMap(op.Map)
				rs.Push(m1)
				ms.scopes = append(ms.scopes, m2)
				pushedMaps = append(pushedMaps, &pushedMap{m: m1, s: op.S, depth: len(ms.scopes)})
			case "pop":
				if len(ms.scopes) > 1 {
					for _, pm := range pushedMaps {
						if pm.s == op.S && pm.depth == len(ms.scopes) && !pm.popped {
							pm.popped = true
						}
					}
					rs.Pop()
					ms.scopes = ms.scopes[:len(ms.scopes)-1]
				}
			case "set":
				rs.Set(op.Name, op.Val)
				ms.scopes[len(ms.scopes)-1][op.Name] = op.Val
			case "setmany":
				k := 9
				if f, ok := op.Val.(float64); ok {
					k = int(f)
				} else if n, ok := op.Val.(int); ok {
					k = n
				}
				for j := 0; j < k && j < len(c17Wide); j++ {
					v := fmt.Sprintf("wide%d-%d", j, i)
					rs.Set(c17Wide[j], v)
					ms.scopes[len(ms.scopes)-1][c17Wide[j]] = v
				}
			case "lookup":
				// compared in checkAll
			case "resolve":
				parts := splitSimplePath(op.Path)
				mv, mok := ms.resolve(parts)
				rv, rok := rs.Resolve(op.Path)
				h = hashBytes([]byte(fmt.Sprint(h, rv, rok)))
				if strings.HasPrefix(op.Path, "user.") {
					break // struct traversal belongs to the (unclaimed) path-resolution half
				}
				if strings.HasPrefix(op.Path, "ty.") {
					if _, bound := ms.lookup("ty"); !bound {
						break
					}
					for _, tc := range tyTable {
						if tc.path == op.Path && (tc.ok != rok || (tc.ok && !reflect.DeepEqual(tc.want, rv))) {
							fail(i, op, "resolve-mismatch", "Resolve disagrees with ordinary Go indexing on a typed container", "Resolve(%q) = (%v,%v), Go indexing gives (%v,%v)", op.Path, rv, rok, tc.want, tc.ok)
						}
					}
					break
				}
				if mok != rok || (mok && !agree(mv, rv)) {
					fail(i, op, "resolve-mismatch", "Resolve disagrees with the model on a map/slice path", "Resolve(%q) = (%v,%v), model (%v,%v)", op.Path, rv, rok, mv, mok)
				}
			case "envmap":
				// the merged environment is read only (whether it is a copy or a live view is not settled by the
				// statement); its agreement with Lookup is compared for every name after every operation
				_ = rs.EnvMap()
			case "copy":
				if len(real) < 8 {
					real = append(real, rs.Copy())
					model = append(model, &mStack{scopes: []map[string]any{ms.env()}, root: ms.root})
				}
			case "foreach":
				var got, want []string
				mv, mok := ms.resolve(splitSimplePath(op.Path))
				err := rs.ForEach(op.Path, func(idx int, v any) error {
					rs.Push(nil)
					rs.Set(op.Name, v)
					x, _ := rs.Lookup(op.Name)
					got = append(got, fmt.Sprintf("%d=%v/%v", idx, v, x))
					rs.Pop()
					return nil
				})
				if err != nil {
					fail(i, op, "foreach-error", "ForEach returned an error", "%v", err)
				}
				if _, bound := ms.lookup("ty"); strings.HasPrefix(op.Path, "ty.") {
					if !bound {
						break
					}
					// what a Go range over the typed collection visits (values only; order is not claimed)
					vals := map[string][]string{"ty.nan": {"nan", "one"}, "ty.ss": {"x", "y"}, "ty.sm": {"", "v"}}[op.Path]
					var gv []string
					for _, g := range got {
						gv = append(gv, g[strings.Index(g, "=")+1:strings.LastIndex(g, "/")])
					}
					sort.Strings(gv)
					if strings.Join(gv, "|") != strings.Join(vals, "|") {
						fail(i, op, "foreach-mismatch", "ForEach visits other elements than a Go range over the typed collection", "ForEach(%q) visited %q, a Go range visits %q", op.Path, gv, vals)
					}
					break
				}
				if mok {
					switch c := mv.(type) {
					case []any:
						for idx, v := range c {
							want = append(want, fmt.Sprintf("%d=%v/%v", idx, v, v))
						}
					case map[string]any:
						// the order in which a map's entries are visited is not claimed: the visit indices must be
						// 0..n-1, each once, and the values those of the map - not which value gets which index
						var idxs, vals []string
						for _, g := range got {
							idxs = append(idxs, g[:strings.Index(g, "=")])
							vals = append(vals, g[strings.Index(g, "=")+1:])
						}
						sort.Strings(idxs)
						sort.Strings(vals)
						got = append(idxs, vals...)
						var wi, wv []string
						n := 0
						for _, v := range c {
							wi = append(wi, strconv.Itoa(n))
							wv = append(wv, fmt.Sprintf("%v/%v", v, v))
							n++
						}
						sort.Strings(wi)
						sort.Strings(wv)
						want = append(wi, wv...)
					}
				}
				if _, isMap := mv.(map[string]any); !isMap || !mok {
					sort.Strings(got)
					sort.Strings(want)
				}
				if strings.Join(got, "|") != strings.Join(want, "|") {
					fail(i, op, "foreach-mismatch", "ForEach visits other elements than the collection holds", "ForEach(%q) visited %v, model %v", op.Path, got, want)
				}
			case "getstring":
				mv, mok := ms.resolve(splitSimplePath(op.Path))
				gs, gok := rs.GetString(op.Path)
				if strings.HasPrefix(op.Path, "ty.") {
					if _, bound := ms.lookup("ty"); !bound {
						break
					}
					// ty.link (a nil *url.URL) and ty.nilp only must not panic
					// settled: an absent path is absent, a string is that string; how a URL, a duration or a number is
					// formatted (or whether it converts at all) is the implementation's choice - those only must not panic
					want, settled := map[string][2]string{"ty.sm.nokey": {"", "false"}, "ty.sm.k": {"v", "true"}, "ty.p.name": {"in", "true"}}[op.Path]
					if settled && (gs != want[0] || fmt.Sprint(gok) != want[1]) {
						fail(i, op, "getstring-mismatch", "GetString disagrees with ordinary Go indexing on a typed container", "GetString(%q) = (%q,%v), Go indexing gives (%q,%s)", op.Path, gs, gok, want[0], want[1])
					}
					break
				}
				// Settled by the statement: an absent path is reported absent; a string is that string. How other
				// kinds are formatted, and which are convertible at all, is the implementation's choice.
				ms, isStr := mv.(string)
				if (!mok && gok) || (mok && isStr && (!gok || gs != ms)) {
					fail(i, op, "getstring-mismatch", "GetString disagrees with the model", "GetString(%q) = (%q,%v), model (%v,%v)", op.Path, gs, gok, mv, mok)
				}
			case "getint":
				mv, mok := ms.resolve(splitSimplePath(op.Path))
				gi, gok := rs.GetInt(op.Path)
				// Settled by the statement: an absent path is reported absent; an integer is that integer. Which other
				// kinds (numeric strings, booleans, floats with a fraction) convert is the implementation's choice.
				wi, isInt := 0, false
				switch t := mv.(type) {
				case int:
					wi, isInt = t, true
				case float64:
					if t == float64(int(t)) {
						wi, isInt = int(t), true
					}
				}
				if (!mok && gok) || (mok && isInt && (!gok || gi != wi)) {
					fail(i, op, "getint-mismatch", "GetInt disagrees with the model", "GetInt(%q) = (%d,%v), model (%v,%v)", op.Path, gi, gok, mv, mok)
				}
			case "touchold":
				for _, pm := range pushedMaps {
					if pm.popped {
						pm.m[op.Name] = op.Val // the caller's own map: no stack holds it any more
					}
				}
			}
			checkAll(i, op)
			// a read-only disagreement (EnvMap vs Lookup) does not desynchronise model and stack: keep exploring;
			// anything else does, so the run ends at its first such violation.
			stop := false
			for _, v := range res.Violations {
				if v.Class != "envmap-mismatch" {
					stop = true
				}
			}
			if stop {
				break
			}
		}
	}()
	rep := simrt.End()
	res.addStat("cases", int64(len(spec.Stack.Ops)))
	res.addStat("steps", rep.Steps)
	res.addStat("clock_span_ns", rep.ClockSpanNs)
	res.addStat("pool_gets", rep.PoolGets)
	res.addStat("pool_reused", rep.PoolReused)
	res.addStat("pool_dropped", rep.PoolDropped)
	if rep.PoolDirty > 0 && len(res.Violations) == 0 {
		res.violate("C17", "use-after-put", "a pooled map was written to while the pool owned it", "%d pooled map(s) were modified between Put and Get (a stack or a caller still holds a map the stack gave to the pool)", rep.PoolDirty)
	}
	for _, op := range spec.Stack.Ops {
		res.Cover = append(res.Cover, "op/"+op.Op)
	}
	for _, d := range spec.Stack.Roots {
		res.Cover = append(res.Cover, "root/"+d.Shape)
	}
	res.Cover = append(res.Cover, fmt.Sprintf("pool/%s/poison=%v/fill=%d", spec.Kernel.Pool.Mode, spec.Kernel.Pool.Poison, spec.Engine.PathFill))
	if rep.PoolReused > 0 {
		res.Cover = append(res.Cover, "recycled-map-reused")
	}
	res.Cover = dedup(res.Cover)
	res.Digest = fmt.Sprintf("%x", h)
	if spec.Run%100 == 0 {
		var ops []string
		for _, op := range first2(spec.Stack.Ops, 25) {
			ops = append(ops, fmt.Sprintf("s%d.%s(%s%s)", op.S, op.Op, op.Name, op.Path))
		}
		res.Sample = map[string]any{"roots": spec.Stack.Roots, "ops": ops, "pool": spec.Kernel.Pool}
	}
	return res
}

func first2(s []StackOp, n int) []StackOp {
	if len(s) > n {
		return s[:n]
	}
	return s
}

func ensure(m map[string]int64) map[string]int64 {
	if m == nil {
		return map[string]int64{}
	}
	return m
}

func copyMap(m map[string]any) map[string]any {
	out := make(map[string]any, len(m))
	for k, v := range m {
		out[k] = v
	}
	return out
}

func nameClass(n string) string {
	switch n {
	case "Title":
		return "Go field name of the root struct"
	case "hidden":
		return "unexported field of the root struct"
	}
	return "plain name"
}

func rootClass(root any) string {
	if root == nil {
		return "nil"
	}
	rv := reflect.ValueOf(root)
	if rv.Kind() == reflect.Ptr {
		return "pointer"
	}
	return rv.Kind().String()
}

// splitSimplePath splits a.b[0]['k'] into segments (the model's own, deliberately naive, splitter).
func splitSimplePath(p string) []string {
	p = strings.NewReplacer("['", ".", "']", "", `["`, ".", `"]`, "", "[", ".", "]", "").Replace(p)
	var out []string
	for _, s := range strings.Split(p, ".") {
		if s = strings.TrimSpace(s); s != "" {
			out = append(out, s)
		}
	}
	return out
}

func exoticRoot(root any) string {
	switch root.(type) {
	case Rich:
		return "struct with embedded struct"
	case *Rich:
		return "pointer to struct with embedded struct"
	case map[string]string, map[int]string:
		return "non-struct value"
	}
	return ""
}

func exoticClass(n string) string {
	switch n {
	case "id", "ID", "Kind":
		return "promoted field of an embedded struct"
	case "RichBase":
		return "embedded struct by its type name"
	case "ptr":
		return "nil pointer-to-struct field"
	case "sub":
		return "struct-typed field"
	case "-", "Skip":
		return "field tagged json:\"-\""
	}
	return "entry of a non-struct root value"
}
