package h

import (
	"bytes"
	"encoding/json"
	"fmt"
	"os"
	"sort"
	"strings"
	"sync"

	"github.com/titpetric/vuego/simrt"
)

// C10 — output is a function of the call's own templates and data.
//
// One run = one sequential history of render operations (with repetitions,
// successes and failures) on one long-lived engine under an adversarial
// simulator configuration (descending / permuted map order, maximal pool
// recycling with poison, arbitrary clock, filled path cache). Every operation
// is compared with the same operation on a fresh engine under the reference
// configuration (ascending map order, no recycling, ticking clock).

type siteInfo struct {
	ID   int    `json:"id"`
	Kind string `json:"kind"`
	File string `json:"file"`
	Line int    `json:"line"`
	Func string `json:"func"`
	Expr string `json:"expr"`
}

var (
	sitesOnce sync.Once
	siteTab   map[int]siteInfo
)

func siteName(id int) string {
	sitesOnce.Do(func() {
		siteTab = map[int]siteInfo{}
		p := os.Getenv("SIM_SITES")
		if p == "" {
			if self, err := os.Executable(); err == nil {
				p = strings.TrimSuffix(self, "/bin/"+baseName(self)) + "/sites.json"
			}
		}
		b, err := os.ReadFile(p)
		if err != nil {
			return
		}
		var t struct {
			Sites []siteInfo `json:"sites"`
		}
		if json.Unmarshal(b, &t) == nil {
			for _, s := range t.Sites {
				siteTab[s.ID] = s
			}
		}
	})
	if s, ok := siteTab[id]; ok {
		return s.Func + ":range " + s.Expr
	}
	return fmt.Sprintf("site%d", id)
}

func baseName(p string) string {
	if i := strings.LastIndex(p, "/"); i >= 0 {
		return p[i+1:]
	}
	return p
}

func refKernel() simrt.Config {
	return simrt.Config{Map: simrt.MapSpec{Order: "asc"}, Pool: simrt.PoolSpec{Mode: "fresh"}, Clock: simrt.ClockSpec{TickNs: 1000}}
}

func randomKernelSeq(r *Rand) simrt.Config {
	k := simrt.Config{}
	k.Map = simrt.MapSpec{Order: Pick(r, []string{"desc", "desc", "perm", "perm", "asc"}), Seed: r.U64()}
	k.Pool = simrt.PoolSpec{Mode: Pick(r, []string{"lifo", "lifo", "fifo", "random", "fresh"}), Poison: r.Chance(70), Seed: r.U64()}
	if r.Chance(20) {
		k.Pool.DropPerMille = 300
	}
	if r.Chance(20) {
		k.Pool.ReusePerMille = 500
	}
	switch r.Intn(5) {
	case 0:
		k.Clock = simrt.ClockSpec{TickNs: 0} // frozen
	case 1:
		k.Clock = simrt.ClockSpec{TickNs: 1_000_000, Every: int64(2 + r.Intn(6))} // coarse
	case 2:
		k.Clock = simrt.ClockSpec{TickNs: 1000, JumpAtCall: int64(1 + r.Intn(5)), JumpNs: -int64(1+r.Intn(5)) * 1000}
	default:
		k.Clock = simrt.ClockSpec{TickNs: int64(1 + r.Intn(100000))}
	}
	return k
}

// genPrograms builds a file set with np pages and returns the operation catalogue over it.
func genPrograms(r *Rand, g *Gen, np int, allowFail bool, entries []string) []OpSpec {
	var ops []OpSpec
	useLayouts := g.on("layout")
	if useLayouts {
		g.Layouts(g.on("baselayout"))
	}
	for p := 0; p < np; p++ {
		name := fmt.Sprintf("pages/p%d.vuego", p)
		var body string
		if allowFail && r.Chance(25) {
			body, _ = g.FailingBody(1+r.Intn(3), fmt.Sprintf("p%d", p))
		} else {
			nsn := 2 + r.Intn(5)
			if r.Chance(4) {
				nsn = 20 + r.Intn(40) // a long document: buffers beyond their initial capacity, many top-level nodes
			}
			body = g.body(nsn, fmt.Sprintf("p%d", p))
		}
		fm := map[string]string{}
		if g.on("frontmatter") {
			fm["fmvar"] = fmt.Sprintf("fm-p%d", p)
			if r.Bool() {
				fm["title"] = fmt.Sprintf("FM Title p%d", p)
			}
			if r.Chance(25) {
				// a map-valued key that the data (and, with the config feature, theme.yml) carries as a map too:
				// front-matter replaces the value for this render, it must not be merged into the other map
				fm["user"] = fmt.Sprintf("\n  name: fm-user-p%d\n  fmonly: only-p%d", p, p)
				if g.on("config") {
					fm["palette"] = fmt.Sprintf("\n  accent: \"#fm%04d\"", p)
				}
			}
		}
		if useLayouts && r.Chance(60) {
			fm["layout"] = Pick(r, []string{"post", "plain"})
		}
		g.put(name, PageFile(body, fm))
		for _, e := range entries {
			op := OpSpec{Kind: "render", Entry: e, File: name, Writer: WriterSpec{FailAt: -1}, Reader: ReaderSpec{FailAfter: -1}}
			if e == "RenderString" || e == "RenderByte" || e == "RenderReader" || e == "Base.RenderString" {
				op.Source = body
			}
			ops = append(ops, op)
		}
	}
	return ops
}

func genC10(seed uint64, run int, tier string) *RunSpec {
	r := NewRand(seed, run)
	g := NewGen(r)
	spec := &RunSpec{Property: "C10", Family: "c10-history", Seed: seed, Run: run}
	npages := 1 + r.Intn(3)
	manyFiles := r.Chance(4)
	if manyFiles {
		npages = 6 + r.Intn(8) // more files than a small bounded cache would hold
	}
	cat := genPrograms(r, g, npages, true, append(append(append([]string{}, Entries...), BaseEntries...), AssignEntries...))
	// distinct operations (program x entry x data), each with its own tag
	nd := 2 + r.Intn(4)
	if manyFiles {
		nd = 8 + r.Intn(8)
	}
	var distinct []OpSpec
	for i := 0; i < nd; i++ {
		op := Pick(r, cat)
		op.Data = randomData(r, fmt.Sprintf("zz%dzz", i))
		distinct = append(distinct, op)
	}
	n := 2 + r.Intn(10)
	if tier == "thorough" {
		n = 2 + r.Intn(14)
	}
	if manyFiles {
		n += 12
	}
	for i := 0; i < n; i++ {
		spec.Ops = append(spec.Ops, distinct[r.Intn(len(distinct))])
	}
	// "before or after any other renders, successful or FAILED": in a fifth of the histories some renders are hit
	// by a writer failure, a cancellation or an fs fault. Such a render is not itself compared; every other one is.
	if r.Chance(20) {
		for i := range spec.Ops {
			switch r.Intn(8) {
			case 0:
				spec.Ops[i].Writer = WriterSpec{FailAt: r.Intn(200), Form: r.Intn(3)}
			case 1:
				spec.Ops[i].Ctx = CtxSpec{CancelAtPoll: 1 + r.Intn(3)}
			case 2:
				spec.Faults = append(spec.Faults, FaultSpec{Op: i, N: 1 + r.Intn(6), Kind: Pick(r, faultKinds), Arg: r.Intn(100)})
			}
		}
	}
	spec.Files = g.FileSpecs(1_700_000_000_000_000_000)
	spec.Engine = randomEngine(r, g.Eng)
	spec.Engine.BaseFill = &DataSpec{Shape: Pick(r, []string{"map", "struct"}), Tag: "zzbzz", Items: 2, Flag: true, Variant: 1}
	spec.Kernel = randomKernelSeq(r)
	spec.Note = "features=" + strings.Join(g.enabled(), ",")
	return spec
}

// runHistory executes the operations one after the other on one engine under cfg.
func runHistory(spec *RunSpec, cfg simrt.Config) ([]Outcome, simrt.Report, *SimFS) {
	simrt.ResetGlobals()
	sfs := NewSimFS(spec.Files, nil, spec.Faults)
	simrt.Begin(cfg)
	eng := NewEngine(spec.Engine, sfs)
	outs := make([]Outcome, len(spec.Ops))
	for i, op := range spec.Ops {
		switch op.Kind {
		case "edit":
			sfs.SetVersion(op.File, op.To)
		case "advance":
			simrt.Advance(op.Ns)
		default:
			outs[i] = eng.Exec(i, op, nil)
		}
	}
	rep := simrt.End()
	return outs, rep, sfs
}

// runAlone executes one operation on a fresh engine under the reference configuration.
func runAlone(spec *RunSpec, op OpSpec, cfg simrt.Config) Outcome {
	simrt.ResetGlobals()
	sfs := NewSimFS(spec.Files, nil, nil)
	simrt.Begin(cfg)
	es := spec.Engine
	es.PathFill = 0
	eng := NewEngine(es, sfs)
	out := eng.Exec(0, op, nil)
	simrt.End()
	return out
}

func opKey(op OpSpec) string {
	b, _ := json.Marshal(op)
	return string(b)
}

func execC10(spec *RunSpec) *Result {
	res := &Result{Run: spec.Run}
	outs, rep, hfs := runHistory(spec, spec.Kernel)
	for k, v := range hfs.Fired() {
		res.addStat("fault_fs_"+k, v)
	}
	res.addStat("cases", int64(len(spec.Ops)))
	res.addStat("steps", rep.Steps)
	res.addStat("clock_span_ns", rep.ClockSpanNs)
	res.addStat("pool_reused", rep.PoolReused)
	res.addStat("pool_gets", rep.PoolGets)
	res.addStat("map_ranges", rep.MapRanges)
	res.addStat("clock_reads", rep.ClockReads)
	if rep.PoolDirty > 0 {
		res.violate("C10", "use-after-put", "pool object modified while owned by the pool", "%d pooled scope map(s) were written to between Put and the next Get", rep.PoolDirty)
	}
	if os.Getenv("SIM_DEBUG") != "" {
		for i, o := range outs {
			fmt.Fprintf(os.Stderr, "op %d: %s\n", i, o)
		}
	}
	refs := map[string]Outcome{}
	firstSeen := map[string]int{}
	tags := map[string]bool{}
	for _, op := range spec.Ops {
		tags[op.Data.Tag] = true
	}
	h := hashBytes()
	mism := -1
	for i, op := range spec.Ops {
		if op.Kind != "render" && op.Kind != "" {
			continue
		}
		o := outs[i]
		h = hashBytes([]byte(fmt.Sprint(h)), o.Out, []byte(o.Err), []byte(o.Panic))
		if o.Panic != "" || o.Overrun || o.Deadlock {
			res.addStat("c11_class_events", 1)
			noteCrash(res, spec, i, op, o)
		}
		faulted := op.Writer.FailAt >= 0 || op.Ctx.Pre || op.Ctx.CancelAtPoll > 0 || hfs.Faulted(i)
		if faulted {
			res.addStat("faulted_renders", 1)
			if o.WriterFired {
				res.addStat("fault_writer_fired", 1)
			}
			if o.Cancelled {
				res.addStat("fault_ctx_cancel_fired", 1)
			}
			if o.DataChanged != "" {
				res.violate("C10", "caller-data-mutated", "caller data mutated by "+op.Entry, "op %d (%s, faulted): the caller's data changed: %s", i, op.Entry, o.DataChanged)
			}
			continue
		}
		key := opKey(op)
		ref, ok := refs[key]
		if !ok {
			ref = runAlone(spec, op, refKernel())
			refs[key] = ref
			res.addStat("cases", 1)
		}
		what := fmt.Sprintf("op %d (%s %s data=%s/%s)", i, op.Entry, op.File, op.Data.Shape, op.Data.Tag)
		// 1. fresh-engine equality
		if !sameOutput(o, ref) && mism < 0 {
			mism = i
		}
		// 2. repeat equality
		if j, seen := firstSeen[key]; seen {
			res.addStat("repeats", 1)
			if !sameOutput(o, outs[j]) {
				res.violate("C10", "repeat-differs", "repeat of the same operation differs", "%s differs from its first execution at op %d:\n  first: %s\n  now:   %s", what, j, outs[j], o)
			}
		} else {
			firstSeen[key] = i
		}
		// 3. no foreign value, no poison
		low := strings.ToLower(string(o.Out) + " " + o.Err)
		for t := range tags {
			if t != op.Data.Tag && t != "" && strings.Contains(low, t) {
				res.violate("C10", "foreign-value", "value of another operation visible", "%s shows tag %s of another operation: %s", what, t, clip(string(o.Out), 300))
			}
		}
		if strings.Contains(low, "simrt-poison") {
			res.violate("C10", "poison-visible", "pool poison visible in output", "%s: %s", what, clip(string(o.Out), 300))
		}
		// 4. caller data untouched
		if o.DataChanged != "" {
			res.violate("C10", "caller-data-mutated", "caller data mutated by "+op.Entry, "%s: the caller's data changed: %s", what, o.DataChanged)
		}
		if o.IsErr {
			res.Cover = append(res.Cover, "err/"+op.Entry)
		} else {
			res.Cover = append(res.Cover, "ok/"+op.Entry+"/"+op.Data.Shape)
		}
	}
	// Nondeterminism the simulator does not own (e.g. Go's map order inside a dependency): the same history under
	// the same simulator configuration gives different bytes from one execution to the next. That is itself a
	// violation of "rendering the same inputs twice gives byte-identical output", and it must be recognised as
	// such, because a mismatch caused by it does not replay as the same mismatch.
	repeatDiffers := false
	for _, v := range res.Violations {
		if v.Class == "repeat-differs" {
			repeatDiffers = true
		}
	}
	if mism >= 0 || repeatDiffers || spec.Probe {
		// Go's iteration over a small map starts at a random slot of an 8-slot group: a 3-entry map comes out in
		// its "canonical" order 3 times out of 4, so a few re-executions are not enough to see the randomness.
		for k := 0; k < 60; k++ {
			again, _, _ := runHistory(spec, spec.Kernel)
			res.addStat("cases", int64(len(spec.Ops)))
			for i := range spec.Ops {
				if spec.Ops[i].Kind != "render" && spec.Ops[i].Kind != "" {
					continue
				}
				if !sameOutput(again[i], outs[i]) {
					probe := cloneSpec(spec)
					probe.Probe = true
					res.violateSpec(probe, "C10", "nondeterministic-output", "identical executions of one history give different bytes",
						"op %d (%s %s): two executions of the same history under the same simulator configuration differ (a source of nondeterminism outside the simulator's seams, e.g. map iteration inside a dependency):\n  one:     %s\n  another: %s", i, spec.Ops[i].Entry, spec.Ops[i].File, outs[i], again[i])
					mism = -1
					break
				}
			}
			if len(res.Violations) > 0 && res.Violations[len(res.Violations)-1].Class == "nondeterministic-output" {
				break
			}
		}
		// differences between repetitions / from the fresh engine in such a run are consequences of it
		nondet := false
		for _, v := range res.Violations {
			if v.Class == "nondeterministic-output" {
				nondet = true
			}
		}
		if nondet {
			keep := res.Violations[:0]
			for _, v := range res.Violations {
				if v.Class != "repeat-differs" && v.Class != "fresh-engine-mismatch" {
					keep = append(keep, v)
				}
			}
			res.Violations = keep
		}
	}
	if mism >= 0 {
		op := spec.Ops[mism]
		cause, sig := attributeC10(spec, mism, refs[opKey(op)], rep.MapSites)
		res.violate("C10", "fresh-engine-mismatch", sig, "op %d (%s %s): long-lived engine differs from a fresh engine; cause: %s\n  long-lived: %s\n  fresh:      %s", mism, op.Entry, op.File, cause, outs[mism], refs[opKey(op)])
	}
	res.Cover = dedup(res.Cover)
	res.Cover = append(res.Cover, fmt.Sprintf("cfg/%s/%s/poison=%v", spec.Kernel.Map.Order, spec.Kernel.Pool.Mode, spec.Kernel.Pool.Poison))
	res.Digest = fmt.Sprintf("%x", h)
	if spec.Run%50 == 0 {
		var entries []string
		for _, op := range spec.Ops {
			entries = append(entries, op.Entry+":"+op.File+":"+op.Data.Tag)
		}
		res.Sample = map[string]any{"history": entries, "kernel": spec.Kernel, "note": spec.Note}
	}
	return res
}

func dedup(s []string) []string {
	sort.Strings(s)
	out := s[:0]
	for i, x := range s {
		if i == 0 || x != s[i-1] {
			out = append(out, x)
		}
	}
	return out
}

// attributeC10 names what the mismatching operation depends on: a map range
// site, pool recycling, the clock, or plain history.
func attributeC10(spec *RunSpec, i int, ref Outcome, mapSites []int) (string, string) {
	differs := func(cfg simrt.Config) bool {
		outs, _, _ := runHistory(spec, cfg)
		return !sameOutput(outs[i], ref)
	}
	cfg := spec.Kernel
	// map order?
	c := cfg
	c.Map = simrt.MapSpec{Order: "asc"}
	if !differs(c) {
		var names []string
		for _, s := range mapSites {
			one := cfg
			one.Map = simrt.MapSpec{Order: "asc", Sites: map[int]string{s: "desc"}}
			if differs(one) {
				names = append(names, siteName(s))
			}
		}
		if len(names) == 0 {
			return "map iteration order (several sites jointly)", "output depends on map iteration order"
		}
		sort.Strings(names)
		return "map iteration order at " + strings.Join(names, "; "), "output depends on map iteration order at " + names[0]
	}
	c = cfg
	c.Clock = simrt.ClockSpec{TickNs: 1000}
	if !differs(c) {
		return "the clock (time.Now)", "output depends on the clock"
	}
	c = cfg
	c.Pool = simrt.PoolSpec{Mode: "fresh"}
	if !differs(c) {
		return "pool recycling", "output depends on pool recycling"
	}
	// engine history: does the operation alone on the long-lived configuration still differ?
	single := cloneSpec(spec)
	single.Ops = []OpSpec{spec.Ops[i]}
	outs, _, _ := runHistory(single, cfg)
	if !sameOutput(outs[0], ref) {
		c = cfg
		c.Map = simrt.MapSpec{Order: "asc"}
		c.Clock = simrt.ClockSpec{TickNs: 1000}
		c.Pool = simrt.PoolSpec{Mode: "fresh"}
		outs, _, _ = runHistory(single, c)
		if sameOutput(outs[0], ref) {
			return "a combination of map order, clock and pool policy", "output depends on simulator policy (combined)"
		}
		return "engine construction options (path cache fill)", "output depends on path cache fill"
	}
	return "earlier operations on the same engine", "output depends on engine history (" + spec.Ops[i].Entry + ")"
}

var _ = bytes.Equal
