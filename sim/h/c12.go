package h

import (
	"bytes"
	"fmt"
	"sort"

	"github.com/titpetric/vuego/simrt"
)

// C12 — output is all-or-nothing and writer failures are reported.
//
// One run = one (program, Template entry point). The run first executes the
// operation fault-free (reference output, number of context polls, Write-call
// boundaries), then enumerates writer fault offset x fault form and context
// cancellation at every poll.

var c12Entries = []string{"Load.Render", "RenderFile", "RenderString", "RenderByte", "RenderReader"}

func genC12(seed uint64, run int, tier string) *RunSpec {
	r := NewRand(seed, run)
	g := NewGen(r)
	spec := &RunSpec{Property: "C12", Family: "c12-grid", Seed: seed, Run: run}
	// stratify entry point and layout mode over run indices so that a small batch covers all of them
	entry := c12Entries[run%len(c12Entries)]
	layoutMode := []string{"none", "chain", "base"}[(run/len(c12Entries))%3]
	failing := (run/(len(c12Entries)*3))%2 == 1 || r.Chance(15)
	delete(g.Feat, "layout")
	var body, kind string
	if failing {
		body, kind = g.FailingBody(1+r.Intn(3), "page")
	} else {
		body = g.body(2+r.Intn(4), "page")
		kind = "ok"
	}
	fm := map[string]string{}
	isFile := entry == "Load.Render" || entry == "RenderFile"
	if g.on("frontmatter") {
		fm["fmvar"] = "fm-value"
	}
	if isFile {
		switch layoutMode {
		case "chain":
			g.Layouts(r.Bool())
			fm["layout"] = "post"
		case "base":
			g.Layouts(true)
		default:
			// a layout directory without base.vuego: no implicit layout
			if r.Bool() {
				g.Layouts(false)
			}
		}
		// failure inside a layout
		if failing && layoutMode != "none" && r.Chance(30) {
			bad, k := g.failing()
			g.put("layouts/plain.vuego", `<section class="plain">`+bad+`<div v-html="content"></div></section>`)
			kind = k + "/layout"
			if layoutMode == "base" {
				g.put("layouts/base.vuego", `<html><body>`+bad+`<div v-html="content"></div></body></html>`)
			}
		}
	} else {
		layoutMode = "n/a"
	}
	g.put("pages/page.vuego", PageFile(body, fm))
	spec.Files = g.FileSpecs(1_700_000_000_000_000_000)
	spec.Engine = randomEngine(r, g.Eng)
	op := OpSpec{Kind: "render", Entry: entry, File: "pages/page.vuego", Data: randomData(r, "zz0zz"), Writer: WriterSpec{FailAt: -1}, Reader: ReaderSpec{FailAfter: -1}}
	if !isFile {
		op.Source = body
		if r.Chance(30) {
			op.Reader.Chunk = 1 + r.Intn(16)
		}
	}
	spec.Ops = []OpSpec{op}
	spec.Kernel = simrt.Config{Map: simrt.MapSpec{Order: "asc"}, Pool: simrt.PoolSpec{Mode: Pick(r, []string{"fresh", "lifo", "random"}), Seed: r.U64()}, Clock: simrt.ClockSpec{TickNs: 1000}}
	spec.Grid = &GridSpec{All: tier == "thorough"}
	spec.Note = fmt.Sprintf("entry=%s layout=%s program=%s", entry, layoutMode, kind)
	if r.Chance(10) {
		// an fs fault somewhere during the render (the render may then fail; the all-or-nothing rule still applies)
		spec.Faults = []FaultSpec{{Op: 0, N: 1 + r.Intn(6), Kind: Pick(r, []string{"eio", "enoent", "perm"})}}
	}
	return spec
}

func c12RunOne(spec *RunSpec, op OpSpec) (Outcome, simrt.Report, *SimFS) {
	out, _, rep, sfs := c12RunTwo(spec, op, nil)
	return out, rep, sfs
}

// c12RunTwo runs op and then, on the same engine (same pools, same caches), the operation `after`.
func c12RunTwo(spec *RunSpec, op OpSpec, after *OpSpec) (Outcome, Outcome, simrt.Report, *SimFS) {
	simrt.ResetGlobals()
	sfs := NewSimFS(spec.Files, nil, spec.Faults)
	simrt.Begin(spec.Kernel)
	eng := NewEngine(spec.Engine, sfs)
	out := eng.Exec(0, op, nil)
	var next Outcome
	if after != nil {
		next = eng.Exec(1, *after, nil)
	}
	rep := simrt.End()
	return out, next, rep, sfs
}

func execC12(spec *RunSpec) *Result {
	res := &Result{Run: spec.Run}
	base := spec.Ops[0]
	layout := "nolayout"
	for _, f := range spec.Files {
		if f.Name == "layouts/base.vuego" {
			layout = "layout"
		}
	}
	for _, f := range spec.Files {
		if f.Name == "pages/page.vuego" && bytes.Contains([]byte(f.Versions[0].Content), []byte("layout: post")) {
			layout = "layout"
		}
	}
	if base.Entry != "Load.Render" && base.Entry != "RenderFile" {
		layout = "string"
	}
	cover := map[string]bool{}
	nontrivial := func(k string) { cover[k] = true }

	// fault-free reference
	refOp := base
	refOp.Writer = WriterSpec{FailAt: -1}
	refOp.Ctx = CtxSpec{}
	refOp.Reader.FailAfter = -1
	ref, rep, sfs := c12RunOne(spec, refOp)
	res.addStat("cases", 1)
	res.addStat("steps", rep.Steps)
	for k, v := range sfs.Fired() {
		res.addStat("fault_fs_"+k, v)
	}
	if ref.Panic != "" || ref.Overrun || ref.Deadlock {
		res.addStat("c11_class_events", 1)
		noteCrash(res, spec, 0, refOp, ref)
		return res
	}
	sig := func(class string, form int) string {
		_ = form
		return fmt.Sprintf("%s/%s/%s", base.Entry, layout, class)
	}
	narrowed := func(op OpSpec) *RunSpec {
		c := cloneSpec(spec)
		c.Ops = []OpSpec{op}
		c.Grid = &GridSpec{Offsets: []int{op.Writer.FailAt}, Forms: []int{op.Writer.Form}}
		switch {
		case op.Ctx.Pre:
			c.Grid = &GridSpec{Polls: []int{0}} // poll 0 = cancelled before the call
		case op.Ctx.CancelAtPoll > 0:
			c.Grid = &GridSpec{Polls: []int{op.Ctx.CancelAtPoll}}
			if op.Writer.FailAt >= 0 {
				c.Grid.Offsets, c.Grid.Forms = []int{op.Writer.FailAt}, []int{op.Writer.Form}
			}
		case op.Reader.FailAfter >= 0:
			c.Grid = &GridSpec{ReaderAt: []int{op.Reader.FailAfter}}
		}
		return c
	}
	check := func(op OpSpec, o Outcome, what string) {
		if o.Panic != "" || o.Overrun || o.Deadlock {
			res.addStat("c11_class_events", 1)
			noteCrash(res, narrowed(op), 0, op, o)
			return
		}
		form := op.Writer.Form
		if o.IsErr && !o.WriterFired && len(o.Out) > 0 {
			res.violateSpec(narrowed(op), "C12", "bytes-on-error", sig("bytes-on-error", 0), "%s: returned error %q but the writer received %d bytes: %q", what, clip(o.Err, 120), len(o.Out), clip(string(o.Out), 120))
		}
		if !o.IsErr && o.WriterFired {
			res.violateSpec(narrowed(op), "C12", "nil-on-writer-fault", sig("nil-on-writer-fault", form), "%s: the writer reported a failure at offset %d (form %d) but the render returned nil", what, op.Writer.FailAt, form)
		}
		if !o.IsErr && !o.WriterFired && !ref.IsErr && !bytes.Equal(o.Out, ref.Out) && len(spec.Faults) == 0 {
			res.violateSpec(narrowed(op), "C12", "incomplete-on-nil", sig("incomplete-on-nil", 0), "%s: returned nil but the writer holds %d bytes, the complete document has %d", what, len(o.Out), len(ref.Out))
		}
		if op.Ctx.Pre && (!o.IsErr || len(o.Out) > 0) {
			res.violateSpec(narrowed(op), "C12", "output-after-precancel", sig("output-after-precancel", 0), "%s: context cancelled before the call: err=%v bytes=%d", what, o.IsErr, len(o.Out))
		}
	}
	check(refOp, ref, "fault-free")
	if ref.IsErr {
		nontrivial("failing-program/" + base.Entry + "/" + layout)
	}

	// writer fault offsets
	var offsets []int
	n := len(ref.Out)
	switch {
	case spec.Grid != nil && len(spec.Grid.Offsets) > 0:
		offsets = spec.Grid.Offsets
	case spec.Grid != nil && spec.Grid.All:
		if n <= 1500 {
			for k := 0; k <= n; k++ {
				offsets = append(offsets, k)
			}
		} else {
			// a long document (deep nesting indents by hundreds of columns): every offset of the first and last 300
			// bytes, every Write-call boundary with its neighbours, and an even sample in between - about 1500 offsets
			set := map[int]bool{}
			for k := 0; k <= 300; k++ {
				set[k], set[n-k] = true, true
			}
			for _, b := range ref.Bounds {
				set[b-1], set[b], set[b+1] = true, true, true
			}
			for k := 300; k < n-300; k += (n-600)/600 + 1 {
				set[k] = true
			}
			for k := range set {
				if k >= 0 && k <= n {
					offsets = append(offsets, k)
				}
			}
			sort.Ints(offsets)
			if len(offsets) > 2500 {
				// very many Write calls: thin the middle
				keep := append([]int{}, offsets[:400]...)
				step := (len(offsets) - 800) / 1500
				if step < 1 {
					step = 1
				}
				for i := 400; i < len(offsets)-400; i += step {
					keep = append(keep, offsets[i])
				}
				offsets = append(keep, offsets[len(offsets)-400:]...)
			}
		}
	default:
		set := map[int]bool{0: true, 1: true, n - 1: true, n: true, n / 2: true}
		for _, b := range ref.Bounds {
			set[b-1], set[b], set[b+1] = true, true, true
		}
		for k := range set {
			if k >= 0 && k <= n {
				offsets = append(offsets, k)
			}
		}
		sort.Ints(offsets)
		if len(offsets) > 40 {
			// keep the ends and an even sample of the middle
			keep := offsets[:8]
			step := (len(offsets) - 16) / 24
			if step < 1 {
				step = 1
			}
			for i := 8; i < len(offsets)-8; i += step {
				keep = append(keep, offsets[i])
			}
			offsets = append(keep, offsets[len(offsets)-8:]...)
		}
	}
	forms := []int{0, 1, 2, 3, 4}
	if spec.Grid != nil && len(spec.Grid.Forms) > 0 {
		forms = spec.Grid.Forms
	}
	// Work per run is bounded in kernel steps (deterministic, unlike wall-clock time): a render of a 200-level
	// nesting costs half a million steps, and two renders per (offset, form) add up. About 4e8 steps per run
	// (some ten seconds) are spent on the writer grid; expensive documents get fewer offsets - the first and last
	// eight always, an even sample in between.
	if refSteps := rep.Steps; refSteps > 0 && (spec.Grid == nil || len(spec.Grid.Offsets) == 0) {
		maxOff := int(400_000_000 / (refSteps * int64(len(forms)) * 2))
		if maxOff < 24 {
			maxOff = 24
		}
		if len(offsets) > maxOff {
			keep := append([]int{}, offsets[:8]...)
			step := (len(offsets) - 16) / (maxOff - 16)
			if step < 1 {
				step = 1
			}
			for i := 8; i < len(offsets)-8; i += step {
				keep = append(keep, offsets[i])
			}
			offsets = append(keep, offsets[len(offsets)-8:]...)
		}
	}
	onlyPolls := spec.Grid != nil && len(spec.Grid.Polls) > 0
	if spec.Grid != nil && len(spec.Grid.ReaderAt) > 0 {
		offsets = nil
	}
	if !onlyPolls {
		for _, k := range offsets {
			if k < 0 {
				continue
			}
			for _, f := range forms {
				op := base
				op.Ctx = CtxSpec{}
				op.Reader.FailAfter = -1
				op.Writer = WriterSpec{FailAt: k, Form: f, ErrKind: (k + f) % 8}
				if spec.Grid != nil && len(spec.Grid.Offsets) > 0 && base.Writer.FailAt == k {
					op.Writer.ErrKind = base.Writer.ErrKind // a replay names the error value it was recorded with
				}
				// "when it returns nil the writer has received the complete document": also the call after a failed
				// one, on the same engine - whatever the failed write left in buffers and pools
				o, next, rp, _ := c12RunTwo(spec, op, &refOp)
				res.addStat("cases", 2)
				res.addStat("steps", rp.Steps)
				if o.WriterFired && !ref.IsErr && len(spec.Faults) == 0 && !next.IsErr && next.Panic == "" && !next.Overrun && !bytes.Equal(next.Out, ref.Out) {
					res.violateSpec(narrowed(op), "C12", "incomplete-on-nil", sig("incomplete-on-nil-after-failed-write", 0), "the render after a failed write (offset %d, form %d) returned nil but the writer holds %d bytes, the complete document has %d: %q", k, f, len(next.Out), len(ref.Out), clip(string(next.Out), 160))
				}
				if o.WriterFired {
					res.addStat("fault_writer_fired", 1)
					nontrivial(fmt.Sprintf("w/%s/%s/%d/%s", base.Entry, layout, f, offClass(k, n, ref.Bounds)))
				}
				check(op, o, fmt.Sprintf("writer fault at %d/%d form %d", k, n, f))
			}
		}
	}
	// context: pre-cancelled, and cancelled at each poll the fault-free run performed
	var polls []int
	if onlyPolls {
		polls = spec.Grid.Polls
	} else if spec.Grid == nil || (len(spec.Grid.Offsets) == 0 && len(spec.Grid.ReaderAt) == 0) {
		polls = append(polls, 0)
		for j := 1; j <= ref.Polls+1; j++ {
			polls = append(polls, j)
		}
	}
	for _, j := range polls {
		op := base
		op.Writer = WriterSpec{FailAt: -1}
		op.Reader.FailAfter = -1
		if j == 0 {
			op.Ctx = CtxSpec{Pre: true}
		} else {
			op.Ctx = CtxSpec{CancelAtPoll: j}
		}
		o, rp, _ := c12RunOne(spec, op)
		res.addStat("cases", 1)
		res.addStat("steps", rp.Steps)
		if o.Cancelled {
			res.addStat("fault_ctx_cancel_fired", 1)
			nontrivial(fmt.Sprintf("c/%s/%s/poll%d", base.Entry, layout, j))
		}
		check(op, o, fmt.Sprintf("cancel at poll %d of %d", j, ref.Polls))
		// cancellation combined with a writer fault on the first byte (or, in a replay, the recorded writer fault)
		if j > 0 && n > 0 && (!onlyPolls || len(spec.Grid.Offsets) > 0) {
			op.Writer = WriterSpec{FailAt: 0, Form: j % 3}
			if onlyPolls && len(spec.Grid.Offsets) > 0 {
				op.Writer = WriterSpec{FailAt: spec.Grid.Offsets[0], Form: spec.Grid.Forms[0]}
			}
			o, rp, _ := c12RunOne(spec, op)
			res.addStat("cases", 1)
			res.addStat("steps", rp.Steps)
			check(op, o, fmt.Sprintf("cancel at poll %d + writer fault at 0", j))
		}
	}
	// failing source reader (RenderReader only): error => nothing written
	readerAt := []int{0, 1, len(base.Source) / 2, len(base.Source) - 1}
	onlyReader := spec.Grid != nil && len(spec.Grid.ReaderAt) > 0
	if onlyReader {
		readerAt = spec.Grid.ReaderAt
	}
	if base.Entry == "RenderReader" && (onlyReader || (!onlyPolls && (spec.Grid == nil || len(spec.Grid.Offsets) == 0))) {
		for _, k := range readerAt {
			if k < 0 {
				continue
			}
			op := base
			op.Ctx = CtxSpec{}
			op.Writer = WriterSpec{FailAt: -1}
			op.Reader.FailAfter = k
			o, rp, _ := c12RunOne(spec, op)
			res.addStat("cases", 1)
			res.addStat("steps", rp.Steps)
			if o.ReaderFired {
				res.addStat("fault_reader_fired", 1)
				nontrivial(fmt.Sprintf("r/%d", k))
			}
			if o.IsErr && len(o.Out) > 0 {
				res.violateSpec(narrowed(op), "C12", "bytes-on-error", sig("bytes-on-error", 0), "source reader failed after %d bytes: error returned but %d bytes written", k, len(o.Out))
			}
		}
	}
	for k := range cover {
		res.Cover = append(res.Cover, k)
	}
	sort.Strings(res.Cover)
	res.Sample = map[string]any{"note": spec.Note, "reference_len": n, "reference_is_error": ref.IsErr, "offsets": len(offsets), "polls": ref.Polls, "write_calls": ref.WriterCalls}
	res.Digest = fmt.Sprintf("%x", hashBytes(ref.Out, []byte(ref.Err)))
	return res
}

func offClass(k, n int, bounds []int) string {
	switch {
	case k == 0:
		return "first"
	case k == n-1:
		return "last"
	case k >= n:
		return "end"
	}
	for _, b := range bounds {
		if k == b || k == b-1 || k == b+1 {
			return "boundary"
		}
	}
	return "mid"
}
