// Package h is the simulation harness: run specifications, the simulated
// environment (file system, writer, reader, context), the workload generator,
// the per-property drivers and oracles.
package h

import (
	"encoding/json"
	"fmt"
	"hash/fnv"

	"github.com/titpetric/vuego/simrt"
)

// RunSpec describes one simulated run completely. Executing it draws no
// randomness: every choice was materialised into the spec by the generator
// (from the run's PRNG) or is a seeded sub-stream named in Kernel.
type RunSpec struct {
	Property string `json:"property"`
	Family   string `json:"family"`
	Seed     uint64 `json:"seed"`
	Run      int    `json:"run"`
	TreeHash string `json:"tree_hash,omitempty"`

	Kernel simrt.Config `json:"kernel"`
	Engine EngineSpec   `json:"engine"`
	Files  []FileSpec   `json:"files"`
	Ops    []OpSpec     `json:"ops"`
	Edits  []EditEvent  `json:"edits,omitempty"`  // environment events at kernel steps (concurrent runs)
	Faults []FaultSpec  `json:"faults,omitempty"` // fs faults keyed by (op, n-th fs call of that op)

	// family-specific
	Grid  *GridSpec  `json:"grid,omitempty"`  // C12
	Stack *StackSpec `json:"stack,omitempty"` // C17
	Warm  bool       `json:"warm,omitempty"`  // C09: render every page once before the tasks start
	Share bool       `json:"share,omitempty"` // C09: all tasks pass the same data value
	Note  string     `json:"note,omitempty"`
	Probe bool       `json:"probe,omitempty"` // C10: re-execute the history several times and compare the executions with each other
}

// EngineSpec selects how the long-lived engine is constructed.
type EngineSpec struct {
	Components bool `json:"components,omitempty"` // WithComponents()
	Less       bool `json:"less,omitempty"`       // WithLessProcessor()
	Funcs      bool `json:"funcs,omitempty"`      // register the harness FuncMap
	Proc       bool `json:"proc,omitempty"`       // register the harness NodeProcessor (per-render state: counts nodes, stamps the count)
	// which optional fs interfaces the simulated FS implements
	ReadFileFS  bool      `json:"read_file_fs,omitempty"`
	StatFS      bool      `json:"stat_fs,omitempty"`
	ReadDirFS   bool      `json:"read_dir_fs,omitempty"`
	PathFill    int       `json:"path_fill,omitempty"`    // distinct throw-away paths resolved before the run (fills the global path cache)
	MtimeJitter bool      `json:"mtime_jitter,omitempty"` // every Stat reports a later modification time (a file that is being rewritten continuously)
	BaseFill    *DataSpec `json:"base_fill,omitempty"`    // data filled into the base template at construction (Base.* entries render with it)
	Overlay     bool      `json:"overlay,omitempty"`      // the engine reads through vuego.NewOverlayFS(fs, fs): the library's own fs wrapper in the path
}

// FileSpec is one simulated file with its immutable versions.
type FileSpec struct {
	Name     string        `json:"name"`
	Versions []FileVersion `json:"versions"`
	Initial  int           `json:"initial,omitempty"`
}

// FileVersion is one state of a file. Deleted versions do not exist for Stat/Open.
type FileVersion struct {
	Content string `json:"content"`
	MtimeNs int64  `json:"mtime_ns"`
	Deleted bool   `json:"deleted,omitempty"`
}

// EditEvent flips File to version To when the kernel step counter reaches Step.
type EditEvent struct {
	Step int64  `json:"step"`
	File string `json:"file"`
	To   int    `json:"to"`
	// AtCall > 0: the edit is not timed by the step counter; it takes effect right after the AtCall-th access
	// (Stat, Open, first Read, ReadFile) of file On (default: File) counted from the arming of the edits - that is,
	// inside the window in which some task has that file's state in flight (between the Stat and the Open of one
	// cache validation, between reading and installing). Step is then filled in by the fs when the edit fires.
	AtCall int    `json:"at_call,omitempty"`
	On     string `json:"on,omitempty"`
	// StallUnlocks > 0 (with AtCall): the task whose access triggered the edit is held back right after its
	// StallUnlocks-th lock release from then on, until no other task can run (simrt.StallCurrentAfterUnlocks).
	StallUnlocks int `json:"stall_unlocks,omitempty"`
}

// FaultSpec makes the N-th (1-based) fs call of operation Op fail.
type FaultSpec struct {
	Op   int    `json:"op"`
	N    int    `json:"n"`
	Kind string `json:"kind"` // eio | enoent | perm | short | readerr
	Arg  int    `json:"arg,omitempty"`
}

// OpSpec is one client operation.
type OpSpec struct {
	Kind   string     `json:"kind"`            // render | edit | advance | stack
	Entry  string     `json:"entry,omitempty"` // see Entries
	File   string     `json:"file,omitempty"`
	Source string     `json:"source,omitempty"`
	Data   DataSpec   `json:"data"`
	Writer WriterSpec `json:"writer"`
	Ctx    CtxSpec    `json:"ctx"`
	Reader ReaderSpec `json:"reader"`
	Task   int        `json:"task,omitempty"`
	// edit
	To int `json:"to,omitempty"`
	// advance (clock)
	Ns int64 `json:"ns,omitempty"`
	// generator's knowledge (oracles that use a model of the statement)
	Expect *Expect `json:"expect,omitempty"`
}

// Expect carries what the generator knows about a program (C16 model).
type Expect struct {
	Markers map[string]int    `json:"markers,omitempty"` // marker -> expected occurrences in the output
	Kinds   map[string]string `json:"kinds,omitempty"`   // marker -> placement kind (names the violation signature)
	// OneLess: markers for which one occurrence less than Markers[m] is accepted too (an emission the statement
	// leaves to the implementation); Same: groups of markers that must then occur equally often.
	OneLess map[string]bool `json:"one_less,omitempty"`
	Same    [][]string      `json:"same,omitempty"`
}

// DataSpec describes the data value passed to an operation; the value is built
// deterministically from it (twice: once to pass, once as the pristine copy).
type DataSpec struct {
	Shape   string `json:"shape"` // map | struct | ptr | nil
	Tag     string `json:"tag"`
	Items   int    `json:"items"`
	Flag    bool   `json:"flag"`
	Variant int    `json:"variant"`
	Depth   int    `json:"depth,omitempty"` // recursion bound for data-bounded recursive components
	Alt     int    `json:"alt,omitempty"`   // alternative Go types for the scalar values (map shape): the same names carry other types in other operations
	Big     bool   `json:"big,omitempty"`   // maps with more than 8 entries (beyond Go's small-map layout), longer strings
}

// WriterSpec is the destination writer: FailAt < 0 never fails; otherwise the
// write that would carry byte offset FailAt fails in the given Form:
// 0 = (0, err), 1 = (n < len, err), 2 = (len, err), 3 = (0, err) once, later writes succeed again (transient),
// 4 = (n < len, nil): the failure is reported by the short count alone, every later write returns (0, nil).
type WriterSpec struct {
	FailAt int `json:"fail_at"`
	Form   int `json:"form,omitempty"`
	// ErrKind selects the error value the writer reports: 0 a plain error, 1 io.ErrClosedPipe, 2 syscall.EPIPE,
	// 3 io.ErrClosedPipe wrapped with %w, 4 io.ErrShortWrite, 5 io.EOF, 6 context.Canceled, 7 os.ErrDeadlineExceeded.
	ErrKind int `json:"err_kind,omitempty"`
}

// CtxSpec: CancelAtPoll == 0 never; k > 0 => the k-th Err() poll and every later one report cancellation;
// Pre => cancelled before the call.
type CtxSpec struct {
	Pre          bool `json:"pre,omitempty"`
	CancelAtPoll int  `json:"cancel_at_poll,omitempty"`
}

// ReaderSpec (RenderReader): FailAfter < 0 never; else the source reader fails after that many bytes. Chunk > 0 = short reads.
type ReaderSpec struct {
	FailAfter int `json:"fail_after"`
	Chunk     int `json:"chunk,omitempty"`
}

// GridSpec restricts the C12 enumeration (nil slices = enumerate per tier).
type GridSpec struct {
	Offsets  []int `json:"offsets,omitempty"`
	Forms    []int `json:"forms,omitempty"`
	Polls    []int `json:"polls,omitempty"`
	ReaderAt []int `json:"reader_at,omitempty"` // source-reader fault positions (replay of a reader-fault violation)
	All      bool  `json:"all,omitempty"`       // every byte offset
}

// StackSpec is a C17 operation history.
type StackSpec struct {
	Roots []DataSpec `json:"roots"`
	Ops   []StackOp  `json:"ops"`
	Names []string   `json:"names,omitempty"`
}

// StackOp is one operation on stack number S.
type StackOp struct {
	S    int            `json:"s"`
	Op   string         `json:"op"`
	Name string         `json:"name,omitempty"`
	Val  any            `json:"val,omitempty"`
	Map  map[string]any `json:"map,omitempty"`
	Path string         `json:"path,omitempty"`
}

// Entries are the render entry points.
var Entries = []string{
	"Vue.Render", "Vue.RenderFragment", "Load.Render", "RenderFile", "RenderString", "RenderByte", "RenderReader", "Vue.RenderNodes",
}

// BaseEntries render straight on the long-lived base template (no New()/Fill() in between): whatever a render
// leaves in the base template's own state is visible to the next one.
var BaseEntries = []string{"Base.RenderFile", "Base.RenderString", "Base.Load.Render"}

// AssignEntries set a request-scoped variable with Template.Assign before rendering (the templates print it):
// what one request assigns must never show up in another.
var AssignEntries = []string{"Load.Assign.Render", "Load.FillNil.Assign.Render"}

// Violation is one property violation found by a run.
type Violation struct {
	Property  string   `json:"property"`
	Class     string   `json:"class"`     // stable violation class (minimisation keeps the class)
	Signature string   `json:"signature"` // what known_findings.json matches on
	Detail    string   `json:"detail"`
	Spec      *RunSpec `json:"spec,omitempty"` // narrowed spec reproducing exactly this violation (optional)
}

// Result is what executing one spec produced.
type Result struct {
	Run        int              `json:"run"`
	Violations []Violation      `json:"violations,omitempty"`
	Stats      map[string]int64 `json:"stats,omitempty"`
	Sample     any              `json:"sample,omitempty"`
	Cover      []string         `json:"cover,omitempty"`  // distinct non-trivial case keys this run covered
	Digest     string           `json:"digest,omitempty"` // hash of everything observable in the run (determinism self-test)
	Spec       *RunSpec         `json:"spec,omitempty"`
	Switches   []simrt.Switch   `json:"switches,omitempty"`
	Err        string           `json:"err,omitempty"` // harness problem (exit 2 material)
}

func (r *Result) addStat(k string, v int64) {
	if r.Stats == nil {
		r.Stats = map[string]int64{}
	}
	r.Stats[k] += v
}

func (r *Result) violate(prop, class, sig, format string, a ...any) {
	r.violateSpec(nil, prop, class, sig, format, a...)
}

// violateSpec records a violation once per signature, with the narrowed spec that reproduces it.
func (r *Result) violateSpec(spec *RunSpec, prop, class, sig, format string, a ...any) {
	for _, v := range r.Violations {
		if v.Property == prop && v.Signature == sig {
			return
		}
	}
	r.Violations = append(r.Violations, Violation{Property: prop, Class: class, Signature: sig, Detail: fmt.Sprintf(format, a...), Spec: spec})
}

// CloneSpec deep-copies a spec through its JSON form.
func CloneSpec(s *RunSpec) *RunSpec { return cloneSpec(s) }

func cloneSpec(s *RunSpec) *RunSpec {
	b, _ := json.Marshal(s)
	var c RunSpec
	_ = json.Unmarshal(b, &c)
	return &c
}

// ---------------------------------------------------------------- PRNG

// Rand is the generator-side PRNG (splitmix64 -> xoshiro256**): one per run, seeded from (VERIF_SEED, run).
type Rand struct{ s [4]uint64 }

func NewRand(seed uint64, run int) *Rand {
	r := &Rand{}
	x := seed*0x9e3779b97f4a7c15 ^ uint64(run+1)*0xbf58476d1ce4e5b9
	for i := range r.s {
		x += 0x9e3779b97f4a7c15
		z := x
		z = (z ^ (z >> 30)) * 0xbf58476d1ce4e5b9
		z = (z ^ (z >> 27)) * 0x94d049bb133111eb
		r.s[i] = z ^ (z >> 31)
	}
	return r
}

func (r *Rand) U64() uint64 {
	s := &r.s
	rot := func(x uint64, k uint) uint64 { return (x << k) | (x >> (64 - k)) }
	res := rot(s[1]*5, 7) * 9
	t := s[1] << 17
	s[2] ^= s[0]
	s[3] ^= s[1]
	s[1] ^= s[2]
	s[0] ^= s[3]
	s[2] ^= t
	s[3] = rot(s[3], 45)
	return res
}

func (r *Rand) Intn(n int) int {
	if n <= 0 {
		return 0
	}
	return int(r.U64() % uint64(n))
}

func (r *Rand) Bool() bool { return r.U64()&1 == 1 }

// Chance is true with probability pct/100.
func (r *Rand) Chance(pct int) bool { return r.Intn(100) < pct }

func Pick[T any](r *Rand, xs []T) T { return xs[r.Intn(len(xs))] }

func hashBytes(parts ...[]byte) uint64 {
	h := fnv.New64a()
	for _, p := range parts {
		h.Write(p)
		h.Write([]byte{0})
	}
	return h.Sum64()
}
