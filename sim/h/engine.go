package h

import (
	"bytes"
	"context"
	"errors"
	"fmt"
	"io"
	"io/fs"
	"reflect"
	"runtime"
	"strings"

	"golang.org/x/net/html"

	vuego "github.com/titpetric/vuego"
	"github.com/titpetric/vuego/simrt"
)

// Engine is the long-lived system under simulation: one *Vue and one base Template over the simulated fs.
type Engine struct {
	FS   *SimFS
	View fs.FS
	Tpl  vuego.Template
	Vue  *vuego.Vue
}

func harnessFuncs() vuego.FuncMap {
	return vuego.FuncMap{
		"double": func(n int) int { return 2 * n },
		"join2":  func(a, b string) string { return a + "+" + b },
		"ctxfn": func(ctx *vuego.VueContext, s string) string {
			if ctx != nil {
				if v, ok := ctx.Stack().Resolve("name"); ok {
					return fmt.Sprintf("%s/%v", s, v)
				}
			}
			return s + "/-"
		},
		"failfn": func(v any) (any, error) { return nil, errors.New("failfn says no") },
		"wrap":   func(s string) string { return "[" + s + "]" },
	}
}

// countProc is the harness NodeProcessor: it has per-render state (PreProcess counts the element nodes of the
// parsed template, PostProcess stamps that count on the first element of the output). If an engine failed to
// give every render its own instance (New), the count would accumulate across renders or race between them.
type countProc struct{ n int }

func (c *countProc) New() vuego.NodeProcessor { return &countProc{} }

func (c *countProc) PreProcess(nodes []*html.Node) error {
	var walk func(n *html.Node)
	walk = func(n *html.Node) {
		if n.Type == html.ElementNode {
			c.n++
		}
		for ch := n.FirstChild; ch != nil; ch = ch.NextSibling {
			walk(ch)
		}
	}
	for _, n := range nodes {
		walk(n)
	}
	return nil
}

func (c *countProc) PostProcess(nodes []*html.Node) error {
	for _, n := range nodes {
		if n.Type == html.ElementNode {
			n.Attr = append(n.Attr, html.Attribute{Key: "data-pp", Val: fmt.Sprint(c.n)})
			break
		}
	}
	return nil
}

// NewEngine constructs the engine of a run over fs.
func NewEngine(e EngineSpec, sfs *SimFS) *Engine {
	// construction reads (theme.yml, data/*.yml, components/) are attributed to a reserved operation index:
	// faults are addressed to render operations, never to the construction of the engine
	sfs.SetOp(maxOps - 6)
	sfs.SetJitter(e.MtimeJitter)
	view := sfs.View(e)
	if e.Overlay {
		// two layers over the same simulated files: an Open that fails on the upper layer is retried on the lower one
		view = vuego.NewOverlayFS(view, view)
	}
	var opts []vuego.LoadOption
	if e.Funcs {
		opts = append(opts, vuego.WithFuncs(harnessFuncs()))
	}
	if e.Less {
		opts = append(opts, vuego.WithLessProcessor())
	}
	if e.Components {
		opts = append(opts, vuego.WithComponents())
	}
	if e.Proc {
		opts = append(opts, vuego.WithProcessor(&countProc{}))
	}
	eng := &Engine{FS: sfs, View: view}
	eng.Tpl = vuego.NewFS(view, opts...)
	if e.BaseFill != nil {
		eng.Tpl.Fill(BuildData(*e.BaseFill))
	}
	v := vuego.NewVue(view)
	for _, o := range opts {
		o(v)
	}
	eng.Vue = v
	if e.PathFill > 0 {
		st := vuego.NewStack(map[string]any{"pf": map[string]any{}})
		for i := 0; i < e.PathFill; i++ {
			st.Resolve(fmt.Sprintf("pf.fill%d", i))
		}
	}
	return eng
}

// Outcome is everything observable about one operation.
type Outcome struct {
	Out         []byte
	Err         string
	IsErr       bool
	Panic       string
	Overrun     bool
	Deadlock    bool
	WriterFired bool
	WriterCalls int
	Bounds      []int
	Polls       int
	Cancelled   bool
	ReaderFired bool
	DataChanged string // non-empty: how the caller's data differs from its pristine copy
}

func (o Outcome) String() string {
	s := fmt.Sprintf("out=%q", clip(string(o.Out), 400))
	if o.IsErr {
		s += fmt.Sprintf(" err=%q", clip(o.Err, 300))
	}
	if o.Panic != "" {
		s += fmt.Sprintf(" panic=%q", clip(o.Panic, 300))
	}
	return s
}

func clip(s string, n int) string {
	if len(s) <= n {
		return s
	}
	return s[:n] + fmt.Sprintf("…(+%d)", len(s)-n)
}

// panicSite names the innermost vuego frame of the panicking goroutine (stable signature).
func panicSite() string {
	pcs := make([]uintptr, 64)
	n := runtime.Callers(3, pcs)
	fr := runtime.CallersFrames(pcs[:n])
	for {
		f, more := fr.Next()
		if strings.Contains(f.Function, "titpetric/vuego") && !strings.Contains(f.Function, "/simrt") {
			name := f.Function
			if i := strings.LastIndex(name, "/"); i >= 0 {
				name = name[i+1:]
			}
			return name
		}
		if !more {
			break
		}
	}
	return "?"
}

// Exec runs one render operation on the engine and records its outcome.
// data may be supplied (shared data in C09); otherwise it is built from the spec.
func (e *Engine) Exec(idx int, op OpSpec, shared any) (out Outcome) {
	e.FS.SetOp(idx)
	simrt.OpStart()
	simrt.TakeDeadlock()
	w := NewSimWriter(op.Writer)
	ctx := NewSimCtx(op.Ctx)
	var data, pristine any
	if shared != nil {
		data = shared
	} else {
		data = BuildData(op.Data)
		pristine = BuildData(op.Data)
	}
	var rd *SimReader
	defer func() {
		if r := recover(); r != nil {
			switch r.(type) {
			case simrt.StepOverrun:
				out.Overrun = true
			case simrt.Deadlock:
				out.Deadlock = true
			default:
				out.Panic = fmt.Sprintf("%v @%s", r, panicSite())
			}
		}
		if simrt.TakeDeadlock() {
			out.Deadlock = true
		}
		out.Out = w.Got
		out.WriterFired = w.Fired
		out.WriterCalls = w.Calls
		out.Bounds = w.Bounds
		out.Polls = ctx.Polls
		out.Cancelled = ctx.Cancelled()
		if rd != nil {
			out.ReaderFired = rd.Fired
		}
		if pristine != nil && !reflect.DeepEqual(data, pristine) {
			out.DataChanged = diffData(pristine, data)
		}
	}()
	var err error
	switch op.Entry {
	case "Vue.Render":
		err = e.Vue.Render(w, op.File, data)
	case "Vue.RenderFragment":
		err = e.Vue.RenderFragment(w, op.File, data)
	case "Vue.RenderNodes": // the caller parses, the engine evaluates and serialises
		var nodes []*html.Node
		nodes, err = vuego.NewLoader(e.View).LoadFragment(op.File)
		if err == nil {
			err = e.Vue.RenderNodes(w, nodes, data)
		}
	case "Load.Render":
		err = e.Tpl.Load(op.File).Fill(data).Render(ctx, w)
	case "RenderFile":
		err = e.Tpl.New().Fill(data).RenderFile(ctx, w, op.File)
	case "Base.RenderFile": // straight on the shared base template
		err = e.Tpl.RenderFile(ctx, w, op.File)
	case "Load.Assign.Render":
		err = e.Tpl.Load(op.File).Fill(data).Assign("assigned", "asg-"+op.Data.Tag).Render(ctx, w)
	case "Load.FillNil.Assign.Render":
		err = e.Tpl.Load(op.File).Fill(nil).Assign("assigned", "asg-"+op.Data.Tag).Assign("name", "n-"+op.Data.Tag).Render(ctx, w)
	case "Base.Load.Render": // Load without Fill: data is what the base template holds
		err = e.Tpl.Load(op.File).Render(ctx, w)
	case "Base.RenderString":
		err = e.Tpl.RenderString(ctx, w, op.Source)
	case "RenderString":
		err = e.Tpl.New().Fill(data).RenderString(ctx, w, op.Source)
	case "RenderByte":
		err = e.Tpl.New().Fill(data).RenderByte(ctx, w, []byte(op.Source))
	case "RenderReader":
		rd = NewSimReader(op.Source, op.Reader)
		err = e.Tpl.New().Fill(data).RenderReader(ctx, w, rd)
	default:
		err = fmt.Errorf("harness: unknown entry %q", op.Entry)
	}
	if err != nil {
		out.IsErr = true
		out.Err = err.Error()
	}
	return out
}

func diffData(a, b any) string {
	am, aok := a.(map[string]any)
	bm, bok := b.(map[string]any)
	if aok && bok {
		var ks []string
		for k := range bm {
			if _, ok := am[k]; !ok {
				ks = append(ks, "+"+k)
			} else if !reflect.DeepEqual(am[k], bm[k]) {
				ks = append(ks, "~"+k)
			}
		}
		for k := range am {
			if _, ok := bm[k]; !ok {
				ks = append(ks, "-"+k)
			}
		}
		sortStrings(ks)
		return strings.Join(ks, ",")
	}
	return "value changed"
}

// sameResult compares the caller-visible result of two executions of the same operation.
// sameOutput: the bytes, and whether the call failed. The statements speak of what a render produces and of whether
// it fails; the wording of an error message is not compared (a message that lists names in map order, or mentions
// that a template came from the cache, differs between a warm shared engine and the cold reference engine without
// any property being at stake - a value of another request inside a message is still caught by the foreign-tag
// oracle, which reads error texts too).
func sameOutput(a, b Outcome) bool {
	return bytes.Equal(a.Out, b.Out) && a.IsErr == b.IsErr && (a.Panic == "") == (b.Panic == "")
}

var _ = io.Discard
var _ context.Context
