package h

// Driver binds a property to its generator, executor and evidence description.
type Driver struct {
	ID      string
	Race    bool // workers run the -race build
	Level   string
	Rule    string
	Runs    func(tier string) int
	Gen     func(seed uint64, run int, tier string) *RunSpec
	Exec    func(spec *RunSpec) *Result
	Assumes []string
}

var Drivers = map[string]*Driver{}

func register(d *Driver) { Drivers[d.ID] = d }

func init() {
	register(&Driver{
		ID: "C12", Level: "fault_enumeration",
		Rule: "one run = one generated (program, Template entry point, layout mode); the run enumerates writer fault offset x form (every byte offset in thorough; first/last/Write-call boundaries±1/sampled middle in quick), context cancellation before the call and at every poll the fault-free run performed, source-reader failures for RenderReader; a case is non-trivial when its fault actually fired; distinct = distinct (fault kind, entry, layout mode, form, offset class | poll index)",
		Runs: func(tier string) int {
			if tier == "thorough" {
				return 150000
			}
			return 6000
		},
		Gen: genC12, Exec: execC12,
		Assumes: []string{"the destination writer obeys the io.Writer contract (never n<len with nil error)", "mid-render cancellation is held only to all-or-nothing, not to 'must fail'", "vuego runs as an instrumented copy whose pass-through behaviour is checked against the repository's own tests"},
	})
	register(&Driver{
		ID: "C10", Level: "exploration",
		Rule: "one run = one sequential history (2-12 operations quick, 2-15 thorough, with repetitions, succeeding and failing programs, every entry point, map/struct/pointer data) on one long-lived engine under a seeded adversarial simulator configuration (map order desc/perm, pool lifo/fifo/random with poison and drops, frozen/coarse/jumping clock, path cache empty/nearly full/saturated); each operation is compared byte-for-byte with the same operation alone on a fresh engine under the reference configuration; evaluations = operations executed (history + references); distinct = distinct (outcome kind, entry point, data shape) and simulator configurations reached",
		Runs: func(tier string) int {
			if tier == "thorough" {
				return 3000000
			}
			return 40000
		},
		Gen: genC10, Exec: execC10,
		Assumes: []string{"reference = the same code on a fresh engine with ascending map order, no recycling and a ticking clock", "simgen's rewrite preserves vuego's behaviour (validated by the repository's tests in pass-through mode)"},
	})
	register(&Driver{
		ID: "C16", Level: "exploration",
		Rule: "one run = a history of 2-6 renders over 1-2 generated pages holding 1-4 uniquely marked v-once placements each (top level, loop body, on the loop element, component included 1-3 times, two components, side by side, unreachable branch, component inside a loop, component reached directly and through a wrapper, nested loops, shorthand tag, layout, component shared by page and layout), every entry point, frozen/coarse/jumping/ticking simulated clock, recycled pools; oracle = occurrences of each marker vs a model of the statement computed by the generator; distinct = distinct (entry class, placement, expected count)",
		Runs: func(tier string) int {
			if tier == "thorough" {
				return 2000000
			}
			return 30000
		},
		Gen: genC16, Exec: execC16,
		Assumes: []string{"expected counts come from the generator's knowledge of loop lengths and conditions, not from vuego", "v-once on an element that also carries v-for counts loop iterations as instantiations of the same element"},
	})
	register(&Driver{
		ID: "C17", Level: "exploration",
		Rule: "one run = one seeded operation stream (10-60 operations quick, 10-160 thorough) over 1-4 stacks plus their copies, root data map / struct / pointer / nil / struct with its JSON-tag map, a 10-name universe including a Go field name and an unexported field; operations Push(nil), Push(map), Pop, Set, Lookup, Resolve (map/slice paths, fresh paths), EnvMap, Copy, ForEach with nested Push/Set/Pop, GetString, GetInt, and the caller re-using a map it pushed earlier; scope maps travel between stacks through the simulated pool (lifo/fifo/random, drops, poison on Put), path cache empty / nearly full / saturated; after every operation every stack is compared with a reference model (slice of plain maps + root value) for every name, and EnvMap with Lookup; distinct = distinct (operation kinds, root shapes, pool configurations, recycled-map-reused probe)",
		Runs: func(tier string) int {
			if tier == "thorough" {
				return 1200000
			}
			return 20000
		},
		Gen: genC17, Exec: execC17,
		Assumes: []string{"only the scope-stack half of C17 is claimed; path resolution through structs/arrays/pointers (a pure function) is not", "values agree when equal up to representation (a struct and its JSON-tag map)"},
	})
	register(&Driver{
		ID: "C15", Level: "exploration",
		Rule: "one run = one history of 4-12 steps from {edit page / component / layout / side file to another immutable version (content edit, front-matter edit, invalid, deleted, restored), clock step, render via Vue.Render / Load.Render / RenderFile / RenderFragment / RenderString} on one long-lived engine over the simulated fs; mtimes from a 1ns/1s/2s universe with equal, backward and zero values; 25% of runs add fs faults (eio, enoent, perm, short read, read error): the faulted render is not compared, every later one is; after every render the result is compared with a new engine on the current files (either version accepted only when the cache cannot tell them apart by mtime); distinct = distinct (edit kind x file role x mtime relation) and render entry points",
		Runs: func(tier string) int {
			if tier == "thorough" {
				return 2000000
			}
			return 30000
		},
		Gen: genC15, Exec: execC15,
		Assumes: []string{"what an engine reads once at construction (theme.yml, data/*.yml, the set of component names) is held fixed within a history", "equal-mtime edits as the cache sees them and zero mtimes are excluded from the freshness claim, as the cache documents", "a render during which an injected fs fault fired is not itself compared (the statement is silent about it); the renders after it are"},
	})
	register(&Driver{
		ID: "C11", Level: "exploration",
		Rule: "run index selects the family: (a) include digraphs over {page, CompA, CompB} enumerated (512 graphs x 5 edge styles: plain / data-bounded v-if / inside v-for / through a slot / include as the first node of the file) then 4-node graphs with mixed styles incl. shorthand tags, every entry point, map/struct/pointer data, recursion depth 0-4; (b) layout graphs: self reference, 2- and 3-cycles, missing target, chains of 5..130, page as its own layout, self-referencing base layout; (c) slot content reused at several <slot> positions and inside loops; (d) hostile typed data in directive positions; (e) runs of every other workload family (C10 histories and C16 histories with added fs/writer/context/reader faults, C12 fault grids, C15 edit histories, C17 stack histories) on which only the crash monitors are evaluated. Oracle: the worker survives, no panic reaches the caller, the call returns within the kernel step budget, an unconditional include/layout cycle returns an error. distinct = distinct (family, entry class, outcome kind)",
		Runs: func(tier string) int {
			if tier == "thorough" {
				return 2000000
			}
			return 30000
		},
		Gen: genC11, Exec: execC11,
		Assumes: []string{"only crash, panic, non-return and unreported unconditional cycles are violations; data-bounded recursion may return output or an error", "robustness against arbitrary byte strings as templates and arbitrary typed data is input fuzzing and is not claimed", "non-return is decided by a kernel step budget three orders above the largest legitimate run, not by wall-clock"},
	})
	register(&Driver{
		ID: "C09", Race: true, Level: "exploration",
		Rule: "one run = 2-4 tasks (thorough: up to 12) x 1-2 render operations each on ONE shared engine and base template (Vue.Render, RenderFragment, Load.Render, RenderFile, RenderString, and RenderFile/RenderString straight on the base template), cold or warmed caches, same page or different pages sharing components and layouts, per-task data or one shared read-only data value, unseen expressions and paths, files edited underneath at kernel steps in 35% of runs; the kernel's seeded scheduler (run-to-completion order, PCT with 1-5 change points, uniform random at 0.4% / 3% / 30% of yield points) decides every interleaving over the yield sites simgen inserted; workers are -race builds with an invisible baton and std sync.Pool neutralised. Oracles: zero race reports, each task's (bytes, error) equals the same operation alone on a fresh engine over the file versions it observed, no foreign tag, no poison, no panic/deadlock, engine not corrupted afterwards. distinct = distinct interleavings (hash of the task-switch sequence) plus configuration and reach probes",
		Runs: func(tier string) int {
			if tier == "thorough" {
				return 400000
			}
			return 6000
		},
		Gen: genC09, Exec: execC09,
		Assumes: []string{"the race detector reports only races among executed accesses not ordered by the program's own synchronisation; a race hidden by an incidental program-owned happens-before edge in the sampled schedules is missed", "a render that observed two versions of one file (an edit landed mid-call) is not compared byte-for-byte", "interleavings inside dependencies are not explored (their memory accesses are still seen by the detector)"},
	})
}
