package h

// Driver binds a property to its generator, executor and evidence description.
type Driver struct {
	ID      string
	Race    bool // workers run the -race build
	Level   string
	Rule    string
	Runs    func(tier string) int
	Gen     func(seed uint64, run int, tier string) *RunSpec
	Exec    func(spec *RunSpec) *Result
	Assumes []string
}

var Drivers = map[string]*Driver{}

func register(d *Driver) { Drivers[d.ID] = d }

func init() {
	register(&Driver{
		ID: "C12", Level: "fault_enumeration",
		Rule: "one run = one generated (program, Template entry point, layout mode); the run enumerates writer fault offset x form (every byte offset in thorough; first/last/Write-call boundaries±1/sampled middle in quick), context cancellation before the call and at every poll the fault-free run performed, source-reader failures for RenderReader; a case is non-trivial when its fault actually fired; distinct = distinct (fault kind, entry, layout mode, form, offset class | poll index)",
		Runs: func(tier string) int {
			if tier == "thorough" {
				return 1200
			}
			return 120
		},
		Gen: genC12, Exec: execC12,
		Assumes: []string{"the destination writer obeys the io.Writer contract (never n<len with nil error)", "mid-render cancellation is held only to all-or-nothing, not to 'must fail'", "vuego runs as an instrumented copy whose pass-through behaviour is checked against the repository's own tests"},
	})
}
