package h

import (
	"fmt"
	"sort"
	"strings"

	"github.com/titpetric/vuego/simrt"
)

// C09 — one engine serves any number of concurrent renders without races or cross-talk.
//
// One run = N tasks (real goroutines, one at a time under the kernel's baton),
// each executing one or two render operations on ONE shared engine and base
// template; optionally files change underneath at kernel-chosen steps. The
// worker is the -race build: the baton is invisible to the detector, so every
// report is about the program's own synchronisation (DESIGN.md §4).

func randomSched(r *Rand, tasks, opsPerTask int) simrt.SchedSpec {
	horizon := int64(2500 * tasks * opsPerTask)
	switch r.Intn(10) {
	case 0, 1:
		return simrt.SchedSpec{Strategy: "rtc", Seed: r.U64()}
	case 2, 3, 4:
		return simrt.SchedSpec{Strategy: "pct", Seed: r.U64(), Depth: 1 + r.Intn(5), Horizon: horizon}
	case 5:
		return simrt.SchedSpec{Strategy: "random", Seed: r.U64(), PerMille: 300}
	case 6, 7:
		return simrt.SchedSpec{Strategy: "random", Seed: r.U64(), PerMille: 30}
	default:
		return simrt.SchedSpec{Strategy: "random", Seed: r.U64(), PerMille: 4}
	}
}

func genC09(seed uint64, run int, tier string) *RunSpec {
	r := NewRand(seed, run)
	g := NewGen(r)
	spec := &RunSpec{Property: "C09", Family: "c09-concurrent", Seed: seed, Run: run}
	entries := []string{"Vue.Render", "Vue.Render", "Load.Render", "RenderFile", "RenderString", "Vue.RenderFragment", "Base.RenderFile", "Base.RenderString", "Load.Assign.Render", "Load.FillNil.Assign.Render"}
	np := 1 + r.Intn(3)
	cat := genPrograms(r, g, np, r.Chance(30), entries)
	ntasks := 2 + r.Intn(3)
	if tier == "thorough" && r.Chance(40) {
		ntasks = 4 + r.Intn(9)
	}
	samePage := r.Chance(50)
	spec.Share = r.Chance(35)
	spec.Warm = r.Chance(40)
	first := Pick(r, cat)
	opsPer := 1 + r.Intn(2)
	sharedData := randomData(r, "zzszz")
	sharedData.Shape = Pick(r, []string{"map", "map", "struct", "ptr"})
	for t := 0; t < ntasks; t++ {
		for k := 0; k < opsPer; k++ {
			op := Pick(r, cat)
			if samePage {
				// same page for every task, entry points vary
				for tries := 0; tries < 20 && op.File != first.File; tries++ {
					op = Pick(r, cat)
				}
			}
			op.Task = t
			if spec.Share {
				op.Data = sharedData
			} else {
				op.Data = randomData(r, fmt.Sprintf("zz%dzz", len(spec.Ops)))
			}
			if r.Chance(25) && (op.Entry == "RenderString") {
				// previously unseen expressions and dotted paths per task (getProgram / getCachedPath miss paths together)
				op.Source = fmt.Sprintf(`<p>{{ user.profile.fresh%d }} {{ n + %d }} {{ items[%d].label }}</p>`, r.Intn(1000), r.Intn(1000), r.Intn(3)) + "\n" + op.Source
			}
			spec.Ops = append(spec.Ops, op)
		}
	}
	spec.Files = g.FileSpecs(1_700_000_000_000_000_000)
	// files changing underneath: a second version for some files and edit events at kernel steps
	if r.Chance(35) {
		horizon := int64(2500 * ntasks * opsPer)
		for i := range spec.Files {
			f := &spec.Files[i]
			if !r.Chance(50) || f.Name == "theme.yml" || strings.HasPrefix(f.Name, "data/") {
				continue // configuration is read once at construction: outside the claim
			}
			c := f.Versions[0].Content
			f.Versions = append(f.Versions, FileVersion{Content: editContent(c, "edited"), MtimeNs: f.Versions[0].MtimeNs + 5_000_000_000})
			e := EditEvent{Step: 1 + int64(r.Intn(int(horizon))), File: f.Name, To: 1}
			if r.Chance(40) {
				e.AtCall = 1 + r.Intn(12) // right after the n-th access of the file: inside some task's load of it
				if r.Chance(50) {
					// and that task sits on what it has just validated while the others go on with the new version
					e.StallUnlocks = Pick(r, []int{1, 1, 1, 2, 3})
				}
			}
			spec.Edits = append(spec.Edits, e)
			if r.Chance(30) {
				spec.Edits = append(spec.Edits, EditEvent{Step: 1 + int64(r.Intn(int(horizon))), File: f.Name, To: 0})
			}
		}
	}
	spec.Engine = randomEngine(r, g.Eng)
	spec.Engine.BaseFill = &DataSpec{Shape: "map", Tag: "zzbzz", Items: 2, Flag: true, Variant: 1}
	spec.Kernel = simrt.Config{
		Sched: randomSched(r, ntasks, opsPer),
		Map:   simrt.MapSpec{Order: "asc"},
		Pool:  simrt.PoolSpec{Mode: Pick(r, []string{"lifo", "fifo", "random", "fresh"}), Seed: r.U64(), Poison: r.Chance(50)},
		Clock: simrt.ClockSpec{TickNs: 1000},
	}
	spec.Note = fmt.Sprintf("tasks=%d ops/task=%d samePage=%v share=%v warm=%v edits=%d features=%s", ntasks, opsPer, samePage, spec.Share, spec.Warm, len(spec.Edits), strings.Join(g.enabled(), ","))
	return spec
}

// concResult is what a concurrent run produced.
type concResult struct {
	outs   []Outcome
	stamps [][2]int64 // kernel step at invoke / return of each operation
	rep    simrt.Report
	fs     *SimFS
	eng    *Engine
	post   []Outcome // sequential renders after the tasks ended (same engine)
	postOp []OpSpec
}

// runConcurrent executes spec.Ops grouped by Task as concurrent tasks on one engine.
func runConcurrent(spec *RunSpec, postRender bool) *concResult {
	simrt.ResetGlobals()
	sfs := NewSimFS(spec.Files, spec.Edits, spec.Faults)
	simrt.Begin(spec.Kernel)
	eng := NewEngine(spec.Engine, sfs)
	cr := &concResult{outs: make([]Outcome, len(spec.Ops)), stamps: make([][2]int64, len(spec.Ops)), fs: sfs, eng: eng}
	var shared any
	if spec.Share && len(spec.Ops) > 0 {
		shared = BuildData(spec.Ops[0].Data)
	}
	if spec.Warm {
		seen := map[string]bool{}
		for i, op := range spec.Ops {
			if op.File != "" && !seen[op.File+op.Entry] {
				seen[op.File+op.Entry] = true
				w := op
				w.Data = DataSpec{Shape: "map", Tag: "zzwzz", Items: 1}
				eng.Exec(maxOps-1, w, nil)
				_ = i
			}
		}
	}
	sfs.ArmEdits()
	base := simrt.Step()
	byTask := map[int][]int{}
	var tasks []int
	for i, op := range spec.Ops {
		if _, ok := byTask[op.Task]; !ok {
			tasks = append(tasks, op.Task)
		}
		byTask[op.Task] = append(byTask[op.Task], i)
	}
	sort.Ints(tasks)
	fns := make([]func(), len(tasks))
	for ti, t := range tasks {
		idxs := byTask[t]
		fns[ti] = func() {
			for _, i := range idxs {
				cr.stamps[i][0] = simrt.Step() - base
				cr.outs[i] = eng.Exec(i, spec.Ops[i], shared)
				cr.stamps[i][1] = simrt.Step() - base
			}
		}
	}
	simrt.RunTasks(fns)
	if postRender {
		seen := map[string]bool{}
		for _, op := range spec.Ops {
			if op.File == "" || seen[op.File] || len(cr.post) >= 4 {
				continue
			}
			seen[op.File] = true
			p := OpSpec{Kind: "render", Entry: "Vue.Render", File: op.File, Data: DataSpec{Shape: "map", Tag: "zzpzz", Items: 2, Flag: true}, Writer: WriterSpec{FailAt: -1}, Reader: ReaderSpec{FailAfter: -1}}
			cr.postOp = append(cr.postOp, p)
			cr.post = append(cr.post, eng.Exec(maxOps-2-len(cr.post), p, nil))
		}
	}
	cr.rep = simrt.End()
	return cr
}

// observedSnapshot: the single version of each file the operation observed, or ok=false if it saw two versions of one file.
func observedSnapshot(sfs *SimFS, op int) (map[string]int, bool) {
	snap := map[string]int{}
	for name, mask := range sfs.Observed(op) {
		n := 0
		for v := 0; v < 32; v++ {
			if mask&(1<<uint(v)) != 0 {
				snap[name] = v
				n++
			}
		}
		if n > 1 {
			return nil, false
		}
	}
	return snap, true
}

func execC09(spec *RunSpec) *Result {
	res := &Result{Run: spec.Run}
	cr := runConcurrent(spec, len(spec.Edits) == 0)
	rep := cr.rep
	res.addStat("cases", int64(len(spec.Ops)))
	res.addStat("steps", rep.Steps)
	res.addStat("clock_span_ns", rep.ClockSpanNs)
	res.addStat("task_switches", int64(len(rep.Switches)))
	res.addStat("lock_blocks", rep.LockBlocks)
	res.addStat("pool_cross_task", rep.PoolCross)
	res.Switches = rep.Switches
	if rep.Truncated {
		res.addStat("schedule_truncated", 1)
	}
	if rep.Deadlock {
		// the blocked operations never returned: their (empty) results say nothing more than the deadlock itself
		res.violate("C09", "deadlock", "tasks deadlock on vuego's locks", "all live tasks were blocked on locks")
		res.Cover = dedup(res.Cover)
		return res
	}
	if rep.PoolDirty > 0 {
		res.violate("C09", "use-after-put", "pooled object modified while owned by the pool", "%d pooled scope map(s) were written to between Put and Get", rep.PoolDirty)
	}
	tags := map[string]bool{}
	for _, op := range spec.Ops {
		tags[op.Data.Tag] = true
	}
	h := hashBytes([]byte(fmt.Sprint(rep.SchedHash)))
	for i, op := range spec.Ops {
		o := cr.outs[i]
		h = hashBytes([]byte(fmt.Sprint(h)), o.Out, []byte(o.Err), []byte(o.Panic))
		if o.Panic != "" || o.Overrun || o.Deadlock {
			noteCrash(res, spec, i, op, o)
		}
		what := fmt.Sprintf("task %d op %d (%s %s data=%s/%s)", op.Task, i, op.Entry, op.File, op.Data.Shape, op.Data.Tag)
		// no cross-talk: same operation alone on a fresh engine over the versions this task observed
		snap, single := observedSnapshot(cr.fs, i)
		if single {
			fspec := cloneSpec(spec)
			fspec.Files = freshFiles(spec.Files, snap)
			alone := runAlone(fspec, op, refKernel())
			res.addStat("cases", 1)
			if !sameOutput(o, alone) && o.Panic == "" && !o.Overrun {
				res.violate("C09", "differs-from-alone", "concurrent result differs from running alone via "+op.Entry, "%s returns something else than when run alone:\n  concurrent: %s\n  alone:      %s", what, o, alone)
			}
		} else {
			res.addStat("mixed_version_renders", 1)
		}
		low := strings.ToLower(string(o.Out) + " " + o.Err)
		for t := range tags {
			if t != op.Data.Tag && t != "" && strings.Contains(low, t) {
				res.violate("C09", "foreign-value", "value of another task visible", "%s shows tag %s of another task: %s", what, t, clip(string(o.Out), 300))
			}
		}
		if strings.Contains(low, "simrt-poison") {
			res.violate("C09", "poison-visible", "pool poison visible in output", "%s: %s", what, clip(string(o.Out), 300))
		}
		if !spec.Share && o.DataChanged != "" {
			res.violate("C09", "caller-data-mutated", "caller data mutated under concurrency by "+op.Entry, "%s: %s", what, o.DataChanged)
		}
	}
	// the engine was not corrupted: a sequential render of each page afterwards equals a fresh engine
	for k, p := range cr.postOp {
		fresh := runAlone(spec, p, refKernel())
		res.addStat("cases", 1)
		if !sameOutput(cr.post[k], fresh) {
			res.violate("C09", "engine-corrupted", "engine renders differently after concurrent use", "sequential render of %s after the tasks differs from a fresh engine:\n  shared engine: %s\n  fresh:         %s", p.File, cr.post[k], fresh)
		}
	}
	// reach probes
	ntasks := 0
	seenT := map[int]bool{}
	for _, op := range spec.Ops {
		if !seenT[op.Task] {
			seenT[op.Task] = true
			ntasks++
		}
	}
	res.Cover = append(res.Cover, fmt.Sprintf("tasks=%d", ntasks), "sched/"+spec.Kernel.Sched.Strategy, fmt.Sprintf("share=%v/warm=%v/edits=%v", spec.Share, spec.Warm, len(spec.Edits) > 0))
	if rep.LockBlocks > 0 {
		res.Cover = append(res.Cover, "probe/task-blocked-on-lock")
	}
	if !spec.Warm {
		// two tasks loading the same page into the cold cache in one run
		readers := map[string]int{}
		for i, op := range spec.Ops {
			if op.File != "" && cr.fs.Reads(i, op.File) > 0 {
				readers[op.File]++
			}
		}
		for _, n := range readers {
			if n >= 2 {
				res.Cover = append(res.Cover, "probe/two-tasks-in-cold-load-path")
				break
			}
		}
	}
	switch {
	case spec.Engine.PathFill >= 256:
		res.Cover = append(res.Cover, "probe/path-cache-saturated")
	case spec.Engine.PathFill > 0:
		res.Cover = append(res.Cover, "probe/path-cache-nearly-full")
	}
	if rep.PoolCross > 0 {
		res.Cover = append(res.Cover, "probe/object-recycled-across-tasks")
	}
	if rep.Stalls > 0 {
		res.Cover = append(res.Cover, "probe/task-stalled-after-unlock-behind-an-edit")
		res.addStat("fault_task_stalled_after_edit", rep.Stalls)
	}
	if res.Stats["mixed_version_renders"] > 0 {
		res.Cover = append(res.Cover, "probe/edit-landed-mid-render")
	}
	res.Cover = append(res.Cover, fmt.Sprintf("interleaving/%x", rep.SchedHash))
	res.Digest = fmt.Sprintf("%x", h)
	if spec.Run%40 == 0 {
		res.Sample = map[string]any{"note": spec.Note, "sched": spec.Kernel.Sched, "switches": len(rep.Switches), "steps": rep.Steps}
	}
	return res
}
