package h

import (
	"fmt"
	"os"
	"regexp"
	"sort"
	"strings"
)

// RaceLog reads the race detector's log file (GORACE=log_path=…) incrementally:
// bytes that appeared since the previous Collect belong to the run that just ended.
type RaceLog struct {
	path string
	off  int64
}

func NewRaceLog(prefix string) *RaceLog {
	if prefix == "" {
		return &RaceLog{}
	}
	return &RaceLog{path: fmt.Sprintf("%s.%d", prefix, os.Getpid())}
}

// Collect returns the reports written since the last call.
func (r *RaceLog) Collect() []RaceReport {
	if r.path == "" {
		return nil
	}
	b, err := os.ReadFile(r.path)
	if err != nil || int64(len(b)) <= r.off {
		return nil
	}
	text := string(b[r.off:])
	r.off = int64(len(b))
	return ParseRaceReports(text)
}

// RaceReport is one normalised data-race report.
type RaceReport struct {
	Kinds  [2]string   `json:"kinds"`  // access kinds: read / write
	Stacks [2][]string `json:"stacks"` // function names, innermost first
	Sig    string      `json:"sig"`
}

var (
	reAccess = regexp.MustCompile(`^(Previous )?([Rr]ead|[Ww]rite|Atomic [a-z]+) at 0x[0-9a-f]+ by (main )?goroutine`)
	reFrame  = regexp.MustCompile(`^  ([^\s].*)\(.*\)$|^  ([^\s(]+)$`)
)

// ParseRaceReports splits the detector's text into reports and normalises them
// (no addresses, goroutine numbers or line numbers).
func ParseRaceReports(text string) []RaceReport {
	var out []RaceReport
	blocks := strings.Split(text, "WARNING: DATA RACE")
	for _, b := range blocks[1:] {
		lines := strings.Split(b, "\n")
		var rep RaceReport
		cur := -1
		for _, ln := range lines {
			if m := reAccess.FindStringSubmatch(ln); m != nil {
				cur++
				if cur > 1 {
					break
				}
				rep.Kinds[cur] = strings.ToLower(m[2])
				continue
			}
			if strings.HasPrefix(ln, "Goroutine ") || strings.HasPrefix(ln, "==================") {
				if cur >= 1 {
					break
				}
				continue
			}
			if cur >= 0 && cur <= 1 && strings.HasPrefix(ln, "  ") && !strings.HasPrefix(ln, "   ") {
				fn := strings.TrimSpace(ln)
				if i := strings.LastIndex(fn, "("); i > 0 {
					fn = fn[:i]
				}
				if i := strings.LastIndex(fn, "/"); i >= 0 {
					fn = fn[i+1:]
				}
				rep.Stacks[cur] = append(rep.Stacks[cur], fn)
			}
		}
		rep.Sig = raceSig(rep)
		out = append(out, rep)
	}
	return out
}

// innermost vuego frames of a stack (function and its caller), skipping runtime, simrt and dependencies.
func vuegoFrames(st []string) string {
	var fs []string
	for _, f := range st {
		if strings.HasPrefix(f, "vuego.") || strings.HasPrefix(f, "helpers.") || strings.HasPrefix(f, "parser.") || strings.HasPrefix(f, "reflect.Resolve") || strings.HasPrefix(f, "ulid.") || strings.HasPrefix(f, "markdown.") {
			if strings.HasPrefix(f, "vuego/simrt.") || strings.HasPrefix(f, "simrt.") {
				continue
			}
			fs = append(fs, f)
			if len(fs) == 1 {
				break
			}
		}
	}
	if len(fs) == 0 {
		if len(st) > 0 {
			return st[0]
		}
		return "?"
	}
	return strings.Join(fs, "<")
}

func raceSig(r RaceReport) string {
	a := r.Kinds[0] + ":" + vuegoFrames(r.Stacks[0])
	b := r.Kinds[1] + ":" + vuegoFrames(r.Stacks[1])
	p := []string{a, b}
	sort.Strings(p)
	return "race " + p[0] + " || " + p[1]
}

// harnessOnly reports whether both stacks of a report lie entirely in harness / kernel code.
func harnessOnly(r RaceReport) bool {
	for _, st := range r.Stacks {
		for _, f := range st {
			if (strings.HasPrefix(f, "vuego.") || strings.HasPrefix(f, "helpers.") || strings.HasPrefix(f, "parser.") || strings.HasPrefix(f, "markdown.") || strings.HasPrefix(f, "html.") || strings.HasPrefix(f, "expr.") || strings.HasPrefix(f, "vm.")) && !strings.Contains(f, "simrt.") {
				return false
			}
		}
	}
	return true
}

// AttachRaces turns the race reports of a run into violations of the property under test.
func AttachRaces(spec *RunSpec, res *Result, reps []RaceReport) {
	if len(reps) == 0 {
		return
	}
	res.addStat("race_reports", int64(len(reps)))
	seen := map[string]bool{}
	for _, r := range reps {
		if harnessOnly(r) {
			res.Err = "race report entirely inside the harness: " + r.Sig
			continue
		}
		if seen[r.Sig] {
			continue
		}
		seen[r.Sig] = true
		res.Violations = append(res.Violations, Violation{Property: spec.Property, Class: "data-race", Signature: r.Sig,
			Detail: fmt.Sprintf("%s by [%s] vs %s by [%s]", r.Kinds[0], strings.Join(first(r.Stacks[0], 6), " < "), r.Kinds[1], strings.Join(first(r.Stacks[1], 6), " < "))})
	}
}

func first(s []string, n int) []string {
	if len(s) > n {
		return s[:n]
	}
	return s
}

// ClassifyCrash names the kind of worker death from its stderr.
func ClassifyCrash(stderr string) (class, sig string) {
	switch {
	case strings.Contains(stderr, "stack overflow") || strings.Contains(stderr, "goroutine stack exceeds"):
		// the recursing function is the most frequent frame of the trace (vuego or a dependency)
		fn := "?"
		re := regexp.MustCompile(`(?m)^[a-zA-Z0-9_./-]+/([a-zA-Z0-9_-]+\.[A-Za-z0-9_().*]+)\(`)
		cnt := map[string]int{}
		for _, m := range re.FindAllStringSubmatch(stderr, -1) {
			cnt[m[1]]++
		}
		best := 0
		for _, n := range cnt {
			if n > best {
				best = n
			}
		}
		// mutually recursive functions appear about equally often (the trace is truncated): among the frequent
		// ones name the alphabetically first, so that the signature is stable
		for f, n := range cnt {
			if n*5 >= best*4 && (fn == "?" || f < fn) {
				fn = f
			}
		}
		return "fatal-stack-overflow", "fatal stack overflow (process killed), recursion in " + fn
	case strings.Contains(stderr, "simcheck: memory budget exceeded"):
		return "memory-explosion", "render grows without bound (memory budget exceeded, process ended)"
	case strings.Contains(stderr, "fatal error:"):
		i := strings.Index(stderr, "fatal error:")
		return "fatal-error", "fatal: " + firstLine(stderr[i:])
	case strings.Contains(stderr, "panic:"):
		i := strings.Index(stderr, "panic:")
		// whose panic? the first frame below the runtime's own: harness code (a bug of the machinery: never a
		// verdict) or the code under test / a dependency
		for _, ln := range strings.Split(stderr[i:], "\n")[1:] {
			ln = strings.TrimSpace(ln)
			if ln == "" || strings.HasPrefix(ln, "goroutine ") || strings.HasPrefix(ln, "panic(") || strings.HasPrefix(ln, "runtime.") || strings.HasPrefix(ln, "/") || strings.HasPrefix(ln, "[") {
				continue
			}
			if strings.HasPrefix(ln, "verif/sim/") || strings.HasPrefix(ln, "main.") {
				return "harness-panic", "harness panic: " + firstLine(stderr[i:]) + " in " + firstLine(ln)
			}
			break
		}
		return "uncaught-panic", firstLine(stderr[i:])
	}
	return "worker-died", "worker died: " + firstLine(stderr)
}

func firstLine(s string) string {
	if i := strings.IndexByte(s, '\n'); i >= 0 {
		s = s[:i]
	}
	if len(s) > 160 {
		s = s[:160]
	}
	return s
}

// Warmup exercises dependency-global caches once per process (reflect, yaml,
// regexp, expr) so that their one-time initialisation does not order tasks.
func Warmup() {
	r := NewRand(12345, 0)
	g := NewGen(r)
	for _, f := range allFeatures {
		g.Feat[f] = true
	}
	delete(g.Feat, "once")
	var body strings.Builder
	for i := 0; i < 60; i++ {
		body.WriteString(g.snippet())
		body.WriteString("\n")
	}
	g.Layouts(true)
	g.put("pages/w.vuego", PageFile(body.String(), map[string]string{"layout": "post"}))
	spec := &RunSpec{Property: "warm", Files: g.FileSpecs(1), Engine: g.Eng}
	spec.Engine.ReadFileFS, spec.Engine.StatFS = true, true
	sfs := NewSimFS(spec.Files, nil, nil)
	eng := NewEngine(spec.Engine, sfs)
	for _, shape := range []string{"map", "struct", "ptr"} {
		op := OpSpec{Entry: "Load.Render", File: "pages/w.vuego", Data: DataSpec{Shape: shape, Tag: "w", Items: 2, Flag: true}, Writer: WriterSpec{FailAt: -1}, Reader: ReaderSpec{FailAfter: -1}}
		eng.Exec(0, op, nil)
		op.Entry = "RenderString"
		op.Source = body.String()
		eng.Exec(0, op, nil)
	}
}
