package h

import (
	"context"
	"errors"
	"fmt"
	"io"
	"io/fs"
	"os"
	"path"
	"sort"
	"strings"
	"syscall"
	"time"

	"github.com/titpetric/vuego/simrt"
)

// ---------------------------------------------------------------- simulated file system

const (
	maxFiles = 256
	maxOps   = 160
	maxLog   = 8192
)

type simFile struct {
	name     string
	versions []FileVersion
}

// fsShared is the state of the simulated fs that tasks share. It is plain
// memory in fixed arrays, mutated only in norace functions (kernel rule).
type fsShared struct {
	cur      [maxFiles]int32          // version set by sequential edit operations
	calls    [maxOps]int32            // fs calls made so far by each operation
	observed [maxOps][maxFiles]uint32 // bitmask of versions each operation observed per file
	reads    [maxOps][maxFiles]int32  // content reads (ReadFile/Open) per operation per file
	fired    [8]int64                 // fault kinds fired
	ncalls   int64
	touch    [maxFiles]int32       // accesses per file since the edits were armed
	curOp    [simrt.MaxTasks]int32 // operation each task is executing
	faulted  [maxOps]bool          // an injected fault fired during this operation
}

// SimFS is the simulated fs.FS. Files and versions are immutable after construction.
type SimFS struct {
	files  []*simFile
	index  map[string]int // read-only after construction
	edits  []simEdit      // sorted by step; a call-triggered edit gets its step when it fires
	faults map[[2]int]FaultSpec
	sh     *fsShared
	// edit events count kernel steps from the moment the harness arms them (after the engine is constructed and
	// warmed): construction-time reads are never subject to edits
	armed    bool
	editBase int64
	jitter   bool // every stat of a file reports a later mtime than the one before
}

// simEdit is an edit event plus the index of the file whose accesses trigger it (-1: timed by step).
type simEdit struct {
	EditEvent
	on int
}

const neverStep = int64(1) << 62

var faultKinds = []string{"eio", "enoent", "perm", "short", "readerr", "fstat"}

func faultIdx(kind string) int {
	for i, k := range faultKinds {
		if k == kind {
			return i
		}
	}
	return len(faultKinds)
}

func NewSimFS(files []FileSpec, edits []EditEvent, faults []FaultSpec) *SimFS {
	s := &SimFS{index: map[string]int{}, faults: map[[2]int]FaultSpec{}, sh: &fsShared{}}
	for i, f := range files {
		s.files = append(s.files, &simFile{name: f.Name, versions: f.Versions})
		s.index[f.Name] = i
		s.sh.cur[i] = int32(f.Initial)
	}
	for _, e := range edits {
		se := simEdit{EditEvent: e, on: -1}
		if e.AtCall > 0 {
			on := e.On
			if on == "" {
				on = e.File
			}
			if i, ok := s.index[on]; ok {
				se.on = i
				se.Step = neverStep
			}
		}
		s.edits = append(s.edits, se)
	}
	sort.SliceStable(s.edits, func(i, j int) bool { return s.edits[i].Step < s.edits[j].Step })
	for _, f := range faults {
		s.faults[[2]int{f.Op, f.N}] = f
	}
	return s
}

// SetOp tells the fs which operation the current task is executing.
//
//go:norace
func (s *SimFS) SetOp(op int) {
	t := simrt.Root() // reads of a goroutine the library started count for the operation that started it
	if t < 0 {
		t = 0
	}
	s.sh.curOp[t] = int32(op)
}

//go:norace
func (s *SimFS) op() int {
	t := simrt.Root() // reads of a goroutine the library started count for the operation that started it
	if t < 0 {
		t = 0
	}
	return int(s.sh.curOp[t])
}

// SetVersion is a sequential edit (no task is running concurrently).
//
//go:norace
func (s *SimFS) SetVersion(name string, v int) {
	if i, ok := s.index[name]; ok {
		s.sh.cur[i] = int32(v)
	}
}

// version returns the index of the file's current version.
//
//go:norace
func (s *SimFS) version(i int) int {
	v := int(s.sh.cur[i])
	if s.armed && len(s.edits) > 0 {
		now := simrt.Step() - s.editBase
		name := s.files[i].name
		for k := range s.edits {
			if s.edits[k].Step > now {
				break
			}
			if s.edits[k].File == name {
				v = s.edits[k].To
			}
		}
	}
	if v < 0 || v >= len(s.files[i].versions) {
		v = 0
	}
	return v
}

// ArmEdits makes the scheduled edit events take effect, counting kernel steps from now.
//
//go:norace
func (s *SimFS) ArmEdits() {
	s.armed = true
	s.editBase = simrt.Step()
	for i := range s.sh.touch {
		s.sh.touch[i] = 0
	}
}

// EffectiveEdits returns the edit events that took effect, each with the step at which it did (harness use, after
// the tasks ended).
func (s *SimFS) EffectiveEdits() []EditEvent {
	var out []EditEvent
	for k := range s.edits {
		if s.edits[k].Step < neverStep {
			out = append(out, s.edits[k].EditEvent)
		}
	}
	return out
}

// touched counts an access of file i and fires the call-triggered edits waiting for it. No library call in here:
// the edit list is plain memory shared by the tasks under the baton (see simrt), invisible to the race detector
// only as long as instrumented code does not touch it.
//
//go:norace
func (s *SimFS) touched(i int) {
	if !s.armed || i >= maxFiles {
		return
	}
	s.sh.touch[i]++
	n := int(s.sh.touch[i])
	now := simrt.Step() - s.editBase
	for k := 0; k < len(s.edits); k++ {
		e := &s.edits[k]
		if e.on != i || e.Step < neverStep || n < e.AtCall {
			continue
		}
		e.Step = now
		if e.StallUnlocks > 0 {
			simrt.StallCurrentAfterUnlocks(e.StallUnlocks)
		}
		// keep the list sorted by step: move the fired edit in front of the later and the unfired ones
		for j := k; j > 0 && s.edits[j-1].Step > s.edits[j].Step; j-- {
			s.edits[j-1], s.edits[j] = s.edits[j], s.edits[j-1]
		}
	}
}

// DropEdits forgets the scheduled edit events (harness use, after the tasks ended: versions are then set explicitly).
func (s *SimFS) DropEdits() { s.edits = nil }

// CurrentVersion is the harness view of a file's version.
func (s *SimFS) CurrentVersion(name string) int {
	if i, ok := s.index[name]; ok {
		return s.version(i)
	}
	return -1
}

//go:norace
func (s *SimFS) note(i, v int, read bool) {
	op := s.op()
	if op >= 0 && op < maxOps && i < maxFiles {
		s.sh.observed[op][i] |= 1 << uint(v)
		if read {
			s.sh.reads[op][i]++
		}
	}
	s.touched(i)
}

// enter is the kernel entry of every fs call: scheduling point + fault decision.
//
//go:norace
func (s *SimFS) enter() (FaultSpec, bool) {
	simrt.Yield(-20)
	op := s.op()
	s.sh.ncalls++
	n := 0
	if op >= 0 && op < maxOps {
		s.sh.calls[op]++
		n = int(s.sh.calls[op])
	}
	if len(s.faults) == 0 {
		return FaultSpec{}, false
	}
	f, ok := s.faults[[2]int{op, n}]
	return f, ok
}

//go:norace
func (s *SimFS) fire(kind string) {
	s.sh.fired[faultIdx(kind)]++
	if op := s.op(); op >= 0 && op < maxOps {
		s.sh.faulted[op] = true
	}
}

// Faulted reports whether an injected fs fault fired during operation op.
func (s *SimFS) Faulted(op int) bool { return op >= 0 && op < maxOps && s.sh.faulted[op] }

// Observed returns, per file name, the bitmask of versions operation op observed.
func (s *SimFS) Observed(op int) map[string]uint32 {
	out := map[string]uint32{}
	for i, f := range s.files {
		if m := s.sh.observed[op][i]; m != 0 {
			out[f.name] = m
		}
	}
	return out
}

// Reads returns how often operation op read the content of name.
func (s *SimFS) Reads(op int, name string) int {
	if i, ok := s.index[name]; ok {
		return int(s.sh.reads[op][i])
	}
	return 0
}

// Calls returns the number of fs calls operation op made.
func (s *SimFS) Calls(op int) int { return int(s.sh.calls[op]) }

// Fired returns fault kind -> times fired.
func (s *SimFS) Fired() map[string]int64 {
	out := map[string]int64{}
	for i, k := range faultKinds {
		if s.sh.fired[i] > 0 {
			out[k] = s.sh.fired[i]
		}
	}
	return out
}

func faultErr(kind, op, name string) error {
	var e error
	switch kind {
	case "enoent":
		e = fs.ErrNotExist
	case "perm":
		e = fs.ErrPermission
	default:
		e = syscall.EIO
	}
	return &fs.PathError{Op: op, Path: name, Err: e}
}

type simInfo struct {
	name  string
	size  int64
	mtime time.Time
	dir   bool
}

func (i simInfo) Name() string { return i.name }
func (i simInfo) Size() int64  { return i.size }
func (i simInfo) Mode() fs.FileMode {
	if i.dir {
		return fs.ModeDir | 0o755
	}
	return 0o644
}
func (i simInfo) ModTime() time.Time         { return i.mtime }
func (i simInfo) IsDir() bool                { return i.dir }
func (i simInfo) Sys() any                   { return nil }
func (i simInfo) Type() fs.FileMode          { return i.Mode().Type() }
func (i simInfo) Info() (fs.FileInfo, error) { return i, nil }

// SetJitter switches on modification times that advance with every fs call.
func (s *SimFS) SetJitter(on bool) { s.jitter = on }

//go:norace
func (s *SimFS) mtime(ns int64) time.Time {
	if s.jitter && ns != 0 {
		return time.Unix(0, ns+s.sh.ncalls*1000)
	}
	return mtimeOf(ns)
}

func mtimeOf(ns int64) time.Time {
	if ns == 0 {
		return time.Time{}
	}
	return time.Unix(0, ns)
}

// lookup resolves name to (file index, version) of an existing file, or reports a directory.
func (s *SimFS) lookup(name string) (fi, ver int, isDir, ok bool) {
	name = path.Clean(name)
	if i, has := s.index[name]; has {
		v := s.version(i)
		if !s.files[i].versions[v].Deleted {
			return i, v, false, true
		}
		return 0, 0, false, false
	}
	if name == "." {
		return 0, 0, true, true
	}
	prefix := name + "/"
	for i, f := range s.files {
		if strings.HasPrefix(f.name, prefix) && !f.versions[s.version(i)].Deleted {
			return 0, 0, true, true
		}
	}
	return 0, 0, false, false
}

func (s *SimFS) stat(name string) (fs.FileInfo, error) {
	if !fs.ValidPath(name) {
		return nil, &fs.PathError{Op: "stat", Path: name, Err: fs.ErrInvalid}
	}
	fi, ver, isDir, ok := s.lookup(name)
	if !ok {
		return nil, &fs.PathError{Op: "stat", Path: name, Err: fs.ErrNotExist}
	}
	if isDir {
		return simInfo{name: path.Base(name), dir: true}, nil
	}
	s.note(fi, ver, false)
	v := s.files[fi].versions[ver]
	return simInfo{name: path.Base(name), size: int64(len(v.Content)), mtime: s.mtime(v.MtimeNs)}, nil
}

func (s *SimFS) readDir(name string) ([]fs.DirEntry, error) {
	if !fs.ValidPath(name) {
		return nil, &fs.PathError{Op: "readdir", Path: name, Err: fs.ErrInvalid}
	}
	name = path.Clean(name)
	_, _, isDir, ok := s.lookup(name)
	if !ok || !isDir {
		return nil, &fs.PathError{Op: "readdir", Path: name, Err: fs.ErrNotExist}
	}
	prefix := name + "/"
	if name == "." {
		prefix = ""
	}
	seen := map[string]bool{}
	var out []fs.DirEntry
	for i, f := range s.files {
		if !strings.HasPrefix(f.name, prefix) {
			continue
		}
		ver := s.version(i)
		if f.versions[ver].Deleted {
			continue
		}
		rest := f.name[len(prefix):]
		if j := strings.IndexByte(rest, '/'); j >= 0 {
			d := rest[:j]
			if !seen[d] {
				seen[d] = true
				out = append(out, simInfo{name: d, dir: true})
			}
			continue
		}
		if !seen[rest] {
			seen[rest] = true
			v := f.versions[ver]
			out = append(out, simInfo{name: rest, size: int64(len(v.Content)), mtime: s.mtime(v.MtimeNs)})
		}
	}
	sort.Slice(out, func(i, j int) bool { return out[i].Name() < out[j].Name() })
	return out, nil
}

type simHandle struct {
	fs      *SimFS
	info    simInfo
	data    string
	pos     int
	chunk   int // >0: short reads
	errAt   int // >=0: read error after that many bytes
	dir     bool
	dirName string
	dirPos  int
	fi, ver int
	counted bool
	statErr bool // Stat on the open file fails (the file still opens and reads)
}

func (h *simHandle) Stat() (fs.FileInfo, error) {
	if h.statErr {
		return nil, &fs.PathError{Op: "stat", Path: h.info.name, Err: syscall.EIO}
	}
	return h.info, nil
}
func (h *simHandle) Close() error { return nil }
func (h *simHandle) Read(p []byte) (int, error) {
	if h.dir {
		return 0, &fs.PathError{Op: "read", Path: h.info.name, Err: errors.New("is a directory")}
	}
	simrt.Yield(-21)
	if !h.counted {
		h.counted = true
		h.fs.note(h.fi, h.ver, true) // the content is read now
	}
	if h.errAt >= 0 && h.pos >= h.errAt {
		return 0, &fs.PathError{Op: "read", Path: h.info.name, Err: syscall.EIO}
	}
	if h.pos >= len(h.data) {
		return 0, io.EOF
	}
	n := len(p)
	if h.chunk > 0 && n > h.chunk {
		n = h.chunk
	}
	if h.errAt >= 0 && h.pos+n > h.errAt {
		n = h.errAt - h.pos
	}
	n = copy(p[:n], h.data[h.pos:])
	h.pos += n
	return n, nil
}

func (h *simHandle) ReadDir(n int) ([]fs.DirEntry, error) {
	if !h.dir {
		return nil, &fs.PathError{Op: "readdir", Path: h.info.name, Err: errors.New("not a directory")}
	}
	all, err := h.fs.readDir(h.dirName)
	if err != nil {
		return nil, err
	}
	rest := all[min(h.dirPos, len(all)):]
	if n <= 0 {
		h.dirPos = len(all)
		return rest, nil
	}
	if len(rest) == 0 {
		return nil, io.EOF
	}
	if n > len(rest) {
		n = len(rest)
	}
	h.dirPos += n
	return rest[:n], nil
}

// Open implements fs.FS.
func (s *SimFS) Open(name string) (fs.File, error) {
	f, faulted := s.enter()
	if faulted && (f.Kind == "eio" || f.Kind == "enoent" || f.Kind == "perm") {
		s.fire(f.Kind)
		return nil, faultErr(f.Kind, "open", name)
	}
	if !fs.ValidPath(name) {
		return nil, &fs.PathError{Op: "open", Path: name, Err: fs.ErrInvalid}
	}
	fi, ver, isDir, ok := s.lookup(name)
	if !ok {
		return nil, &fs.PathError{Op: "open", Path: name, Err: fs.ErrNotExist}
	}
	if isDir {
		return &simHandle{fs: s, info: simInfo{name: path.Base(name), dir: true}, dir: true, dirName: path.Clean(name), errAt: -1}, nil
	}
	s.note(fi, ver, false) // fs.Stat falls back to Open + File.Stat: opening is not yet reading the content
	v := s.files[fi].versions[ver]
	h := &simHandle{fs: s, data: v.Content, errAt: -1, fi: fi, ver: ver,
		info: simInfo{name: path.Base(name), size: int64(len(v.Content)), mtime: s.mtime(v.MtimeNs)}}
	if faulted {
		switch f.Kind {
		case "short":
			h.chunk = 1 + f.Arg%7
			s.fire(f.Kind)
		case "readerr":
			h.errAt = f.Arg % (len(v.Content) + 1)
			s.fire(f.Kind)
		case "fstat":
			h.statErr = true
			s.fire(f.Kind)
		}
	}
	return h, nil
}

func (s *SimFS) readFile(name string) ([]byte, error) {
	f, faulted := s.enter()
	if faulted {
		k := f.Kind
		if k == "short" || k == "readerr" || k == "fstat" {
			k = "eio" // no partial result through ReadFileFS; degrade to a plain error
		}
		s.fire(k)
		return nil, faultErr(k, "readfile", name)
	}
	if !fs.ValidPath(name) {
		return nil, &fs.PathError{Op: "readfile", Path: name, Err: fs.ErrInvalid}
	}
	fi, ver, isDir, ok := s.lookup(name)
	if !ok || isDir {
		return nil, &fs.PathError{Op: "readfile", Path: name, Err: fs.ErrNotExist}
	}
	s.note(fi, ver, true)
	return []byte(s.files[fi].versions[ver].Content), nil
}

func (s *SimFS) statCall(name string) (fs.FileInfo, error) {
	f, faulted := s.enter()
	if faulted {
		k := f.Kind
		if k == "short" || k == "readerr" || k == "fstat" {
			k = "eio"
		}
		s.fire(k)
		return nil, faultErr(k, "stat", name)
	}
	return s.stat(name)
}

func (s *SimFS) readDirCall(name string) ([]fs.DirEntry, error) {
	f, faulted := s.enter()
	if faulted {
		k := f.Kind
		if k == "short" || k == "readerr" || k == "fstat" {
			k = "eio"
		}
		s.fire(k)
		return nil, faultErr(k, "readdir", name)
	}
	return s.readDir(name)
}

// capability wrappers: which optional fs interfaces the engine sees is a per-run knob.
type (
	fsR   struct{ *SimFS }
	fsS   struct{ *SimFS }
	fsD   struct{ *SimFS }
	fsRS  struct{ *SimFS }
	fsRD  struct{ *SimFS }
	fsSD  struct{ *SimFS }
	fsRSD struct{ *SimFS }
)

func (f fsR) ReadFile(n string) ([]byte, error)         { return f.readFile(n) }
func (f fsRS) ReadFile(n string) ([]byte, error)        { return f.readFile(n) }
func (f fsRD) ReadFile(n string) ([]byte, error)        { return f.readFile(n) }
func (f fsRSD) ReadFile(n string) ([]byte, error)       { return f.readFile(n) }
func (f fsS) Stat(n string) (fs.FileInfo, error)        { return f.statCall(n) }
func (f fsRS) Stat(n string) (fs.FileInfo, error)       { return f.statCall(n) }
func (f fsSD) Stat(n string) (fs.FileInfo, error)       { return f.statCall(n) }
func (f fsRSD) Stat(n string) (fs.FileInfo, error)      { return f.statCall(n) }
func (f fsD) ReadDir(n string) ([]fs.DirEntry, error)   { return f.readDirCall(n) }
func (f fsRD) ReadDir(n string) ([]fs.DirEntry, error)  { return f.readDirCall(n) }
func (f fsSD) ReadDir(n string) ([]fs.DirEntry, error)  { return f.readDirCall(n) }
func (f fsRSD) ReadDir(n string) ([]fs.DirEntry, error) { return f.readDirCall(n) }

// View returns the fs.FS the engine gets, with the optional interfaces of e.
func (s *SimFS) View(e EngineSpec) fs.FS {
	switch {
	case e.ReadFileFS && e.StatFS && e.ReadDirFS:
		return fsRSD{s}
	case e.ReadFileFS && e.StatFS:
		return fsRS{s}
	case e.ReadFileFS && e.ReadDirFS:
		return fsRD{s}
	case e.StatFS && e.ReadDirFS:
		return fsSD{s}
	case e.ReadFileFS:
		return fsR{s}
	case e.StatFS:
		return fsS{s}
	case e.ReadDirFS:
		return fsD{s}
	}
	return s
}

// ---------------------------------------------------------------- writer

var errWriter = errors.New("simio: injected writer failure")

// writerErr: the error value a failing destination reports - a render must report a failed write whatever the
// value is (a closed pipe, a reset connection and a cancelled request are failures like any other).
func (w *SimWriter) werr() error {
	switch w.spec.ErrKind {
	case 1:
		return io.ErrClosedPipe
	case 2:
		return syscall.EPIPE
	case 3:
		return fmt.Errorf("write to client: %w", io.ErrClosedPipe)
	case 4:
		return io.ErrShortWrite
	case 5:
		return io.EOF
	case 6:
		return context.Canceled
	case 7:
		return os.ErrDeadlineExceeded
	}
	return errWriter
}

// SimWriter records everything it accepts and fails as its spec says. It obeys the io.Writer contract.
type SimWriter struct {
	spec   WriterSpec
	Got    []byte
	Calls  int
	Bounds []int // offset after each successful Write call
	Fired  bool
}

func NewSimWriter(s WriterSpec) *SimWriter { return &SimWriter{spec: s} }

func (w *SimWriter) Write(p []byte) (int, error) {
	simrt.Yield(-22)
	w.Calls++
	if w.Fired && w.spec.Form == 3 {
		// transient failure: the writer failed once and accepts data again (the lost bytes leave a hole)
		w.Got = append(w.Got, p...)
		return len(p), nil
	}
	if len(w.Got) > 8<<20 {
		// no legitimate render of the workload produces megabytes: unbounded output is non-termination
		panic(simrt.StepOverrun{Steps: simrt.Step()})
	}
	if w.Fired && w.spec.Form == 4 {
		return 0, nil // a full destination that keeps reporting, by count alone, that nothing was taken
	}
	if w.Fired {
		return 0, w.werr()
	}
	if w.spec.FailAt >= 0 && len(w.Got)+len(p) > w.spec.FailAt {
		// this call would carry byte offset FailAt
		w.Fired = true
		switch w.spec.Form {
		case 1:
			n := w.spec.FailAt - len(w.Got)
			if n < 0 {
				n = 0
			}
			w.Got = append(w.Got, p[:n]...)
			return n, w.werr()
		case 2:
			w.Got = append(w.Got, p...)
			return len(p), w.werr()
		case 4:
			// the failure is reported by the count alone: fewer bytes taken than offered, nil error (io.ErrShortWrite
			// exists for this; bufio, io.Copy and bytes.Buffer.WriteTo all treat it as a failed write)
			n := w.spec.FailAt - len(w.Got)
			if n < 0 {
				n = 0
			}
			w.Got = append(w.Got, p[:n]...)
			return n, nil
		default:
			return 0, w.werr()
		}
	}
	w.Got = append(w.Got, p...)
	w.Bounds = append(w.Bounds, len(w.Got))
	return len(p), nil
}

// ---------------------------------------------------------------- context

// SimCtx is a context.Context whose Err() is a kernel entry; cancellation is decided per poll.
type SimCtx struct {
	spec      CtxSpec
	Polls     int
	cancelled bool
	done      chan struct{}
}

func NewSimCtx(s CtxSpec) *SimCtx {
	c := &SimCtx{spec: s, done: make(chan struct{})}
	if s.Pre {
		c.cancelled = true
		close(c.done)
	}
	return c
}

func (c *SimCtx) Deadline() (time.Time, bool) { return time.Time{}, false }
func (c *SimCtx) Done() <-chan struct{}       { return c.done }
func (c *SimCtx) Value(any) any               { return nil }
func (c *SimCtx) Err() error {
	simrt.Yield(-23)
	c.Polls++
	if !c.cancelled && c.spec.CancelAtPoll > 0 && c.Polls >= c.spec.CancelAtPoll {
		c.cancelled = true
		close(c.done)
	}
	if c.cancelled {
		return context.Canceled
	}
	return nil
}

// Cancelled reports whether the context has reported cancellation.
func (c *SimCtx) Cancelled() bool { return c.cancelled }

// ---------------------------------------------------------------- reader

var errReader = errors.New("simio: injected reader failure")

// SimReader is the source reader of RenderReader.
type SimReader struct {
	data  string
	pos   int
	spec  ReaderSpec
	Fired bool
}

func NewSimReader(data string, s ReaderSpec) *SimReader { return &SimReader{data: data, spec: s} }

func (r *SimReader) Read(p []byte) (int, error) {
	simrt.Yield(-24)
	if r.spec.FailAfter >= 0 && r.pos >= r.spec.FailAfter {
		r.Fired = true
		return 0, errReader
	}
	if r.pos >= len(r.data) {
		return 0, io.EOF
	}
	n := len(p)
	if r.spec.Chunk > 0 && n > r.spec.Chunk {
		n = r.spec.Chunk
	}
	if r.spec.FailAfter >= 0 && r.pos+n > r.spec.FailAfter {
		n = r.spec.FailAfter - r.pos
	}
	n = copy(p[:n], r.data[r.pos:])
	r.pos += n
	return n, nil
}
