package h

import (
	"strings"

	"github.com/titpetric/vuego/simrt"
)

// Shrink minimises a failing spec by delta debugging: a candidate is kept only
// if fails(candidate) — i.e. the same violation class recurs when the candidate
// is executed (in a fresh process, by the caller). budget bounds the number of
// candidate executions.
func Shrink(spec *RunSpec, switches []Switch, fails func(*RunSpec) bool, budget int) (*RunSpec, int) {
	cur := cloneSpec(spec)
	used := 0
	try := func(c *RunSpec) bool {
		if used >= budget {
			return false
		}
		used++
		if fails(c) {
			cur = c
			return true
		}
		return false
	}

	// 1. make the schedule explicit (only meaningful for multi-task runs)
	if len(switches) > 0 && cur.Kernel.Sched.Strategy != "explicit" && cur.Kernel.Sched.Strategy != "" {
		c := cloneSpec(cur)
		c.Kernel.Sched.Strategy = "explicit"
		c.Kernel.Sched.Explicit = switches
		c.Kernel.Sched.Seed, c.Kernel.Sched.PerMille, c.Kernel.Sched.Depth = 0, 0, 0
		try(c)
	}

	// 2. drop whole operations (ddmin on the op list), keeping task numbers dense is not required
	ddmin(len(cur.Ops), func(keep []int) bool {
		if len(keep) == 0 {
			return false
		}
		c := cloneSpec(cur)
		c.Ops = nil
		for _, i := range keep {
			c.Ops = append(c.Ops, cur.Ops[i])
		}
		remapFaults(c, keep)
		return try(c)
	})
	if cur.Stack != nil {
		ddmin(len(cur.Stack.Ops), func(keep []int) bool {
			c := cloneSpec(cur)
			c.Stack.Ops = nil
			for _, i := range keep {
				c.Stack.Ops = append(c.Stack.Ops, cur.Stack.Ops[i])
			}
			return try(c)
		})
	}

	// 3. drop faults and environment edits
	ddmin(len(cur.Faults), func(keep []int) bool {
		c := cloneSpec(cur)
		c.Faults = nil
		for _, i := range keep {
			c.Faults = append(c.Faults, cur.Faults[i])
		}
		return try(c)
	})
	ddmin(len(cur.Edits), func(keep []int) bool {
		c := cloneSpec(cur)
		c.Edits = nil
		for _, i := range keep {
			c.Edits = append(c.Edits, cur.Edits[i])
		}
		return try(c)
	})

	// 4. simplify simulator knobs one at a time
	simpl := []func(c *RunSpec) bool{
		func(c *RunSpec) bool { ch := c.Engine.PathFill != 0; c.Engine.PathFill = 0; return ch },
		func(c *RunSpec) bool {
			ch := c.Kernel.Pool.Mode != "fresh" && c.Kernel.Pool.Mode != ""
			c.Kernel.Pool = PoolSpecFresh()
			return ch
		},
		func(c *RunSpec) bool { ch := c.Kernel.Pool.Poison; c.Kernel.Pool.Poison = false; return ch },
		func(c *RunSpec) bool {
			ch := c.Kernel.Pool.DropPerMille != 0
			c.Kernel.Pool.DropPerMille = 0
			return ch
		},
		func(c *RunSpec) bool {
			ch := c.Kernel.Map.Order != "asc"
			c.Kernel.Map.Order = "asc"
			return ch
		},
		func(c *RunSpec) bool {
			ch := c.Kernel.Clock.Every > 1 || c.Kernel.Clock.JumpAtCall != 0
			c.Kernel.Clock.Every, c.Kernel.Clock.JumpAtCall, c.Kernel.Clock.JumpNs = 0, 0, 0
			return ch
		},
		func(c *RunSpec) bool { ch := c.Warm; c.Warm = false; return ch },
		func(c *RunSpec) bool { ch := c.Share; c.Share = false; return ch },
		func(c *RunSpec) bool { ch := !c.Engine.ReadFileFS; c.Engine.ReadFileFS = true; return ch },
		func(c *RunSpec) bool { ch := !c.Engine.StatFS; c.Engine.StatFS = true; return ch },
		func(c *RunSpec) bool { ch := c.Engine.ReadDirFS; c.Engine.ReadDirFS = false; return ch },
	}
	hasExpect := false
	for _, op := range cur.Ops {
		if op.Expect != nil {
			hasExpect = true
		}
	}
	if !hasExpect {
		// engine options change what a program means; not touched when the oracle is the generator's model of the program
		simpl = append(simpl,
			func(c *RunSpec) bool { ch := c.Engine.Less; c.Engine.Less = false; return ch },
			func(c *RunSpec) bool { ch := c.Engine.Components; c.Engine.Components = false; return ch })
	}
	for _, f := range simpl {
		c := cloneSpec(cur)
		if f(c) {
			try(c)
		}
	}
	for i := range cur.Ops {
		d := cur.Ops[i].Data
		for _, f := range []func(d *DataSpec) bool{
			func(d *DataSpec) bool { ch := d.Shape != "map"; d.Shape = "map"; return ch },
			func(d *DataSpec) bool { ch := d.Items > 1; d.Items = 1; return ch },
			func(d *DataSpec) bool { ch := d.Variant != 0; d.Variant = 0; return ch },
		} {
			c := cloneSpec(cur)
			dd := d
			if f(&dd) {
				c.Ops[i].Data = dd
				if try(c) {
					d = dd
				}
			}
		}
	}

	// 5. the explicit schedule: fewest task switches
	if cur.Kernel.Sched.Strategy == "explicit" {
		ddmin(len(cur.Kernel.Sched.Explicit), func(keep []int) bool {
			c := cloneSpec(cur)
			c.Kernel.Sched.Explicit = nil
			for _, i := range keep {
				c.Kernel.Sched.Explicit = append(c.Kernel.Sched.Explicit, cur.Kernel.Sched.Explicit[i])
			}
			return try(c)
		})
	}

	// 6. drop files, then lines of the remaining files (bodies are one snippet per line).
	// Not when the oracle rests on the generator's knowledge of the program (Expect): changing the
	// program would change what is expected of it.
	for _, op := range cur.Ops {
		if op.Expect != nil {
			return cur, used
		}
	}
	ddmin(len(cur.Files), func(keep []int) bool {
		c := cloneSpec(cur)
		c.Files = nil
		for _, i := range keep {
			c.Files = append(c.Files, cur.Files[i])
		}
		return try(c)
	})
	for fi := range cur.Files {
		for vi := range cur.Files[fi].Versions {
			nl := len(strings.Split(cur.Files[fi].Versions[vi].Content, "\n"))
			if nl < 3 {
				continue
			}
			ddmin(nl, func(keep []int) bool {
				lines := strings.Split(cur.Files[fi].Versions[vi].Content, "\n")
				c := cloneSpec(cur)
				var ls []string
				for _, i := range keep {
					ls = append(ls, lines[i])
				}
				c.Files[fi].Versions[vi].Content = strings.Join(ls, "\n")
				return try(c)
			})
		}
	}
	for oi := range cur.Ops {
		if cur.Ops[oi].Source == "" {
			continue
		}
		nl := len(strings.Split(cur.Ops[oi].Source, "\n"))
		if nl < 3 {
			continue
		}
		ddmin(nl, func(keep []int) bool {
			lines := strings.Split(cur.Ops[oi].Source, "\n")
			c := cloneSpec(cur)
			var ls []string
			for _, i := range keep {
				ls = append(ls, lines[i])
			}
			c.Ops[oi].Source = strings.Join(ls, "\n")
			return try(c)
		})
	}
	return cur, used
}

// Switch is simrt.Switch.
type Switch = simrt.Switch

// PoolSpecFresh is the no-recycling pool policy.
func PoolSpecFresh() simrt.PoolSpec { return simrt.PoolSpec{Mode: "fresh"} }

func remapFaults(c *RunSpec, keep []int) {
	pos := map[int]int{}
	for n, i := range keep {
		pos[i] = n
	}
	var fs []FaultSpec
	for _, f := range c.Faults {
		if n, ok := pos[f.Op]; ok {
			f.Op = n
			fs = append(fs, f)
		}
	}
	c.Faults = fs
}

// ddmin removes chunks of indices 0..n-1 while test(keep) stays true.
// test must itself commit the reduction (it is called with the surviving indices of the *current* list).
func ddmin(n int, test func(keep []int) bool) {
	if n <= 1 {
		if n == 1 {
			test(nil)
		}
		return
	}
	idx := make([]int, n)
	for i := range idx {
		idx[i] = i
	}
	// indices refer to the list at the time of the call; after a successful test the list shrank, so we
	// restart with fresh indices of the new list.
	chunk := n / 2
	for chunk >= 1 && n > 0 {
		removed := false
		for start := 0; start < n; start += chunk {
			end := start + chunk
			if end > n {
				end = n
			}
			var keep []int
			for i := 0; i < n; i++ {
				if i < start || i >= end {
					keep = append(keep, i)
				}
			}
			if test(keep) {
				n = len(keep)
				removed = true
				break
			}
		}
		if !removed {
			chunk /= 2
		} else if chunk > n/2 && n > 1 {
			chunk = n / 2
		}
		if n <= 1 && chunk >= 1 {
			if n == 1 {
				test(nil)
			}
			return
		}
	}
}
