module verif/sim

go 1.25.5

require (
	github.com/anishathalye/porcupine v1.3.0
	github.com/titpetric/vuego v0.0.0
)

replace github.com/titpetric/vuego => /root/.cache/vuego-sim/cur/src
