// simcheck is the simulation worker and supervisor.
//
//	simcheck check <property> <quick|thorough>   supervisor: fan runs out to worker processes, minimise, evidence, exit code
//	simcheck worker                              worker loop (JSON lines on stdin/stdout)
//	simcheck replay <file>                       re-execute a replay file in a fresh worker process
//	simcheck gen <property> <seed> <run> <tier>  print the generated spec of one run
//
// Exit codes: 0 property held on everything explored; 1 violation (VIOLATION line printed);
// 2 build / harness / watchdog trouble (never a verdict).
package main

import (
	"bufio"
	"encoding/json"
	"fmt"
	"os"
	"os/exec"
	"path/filepath"
	"runtime"
	"runtime/debug"
	"runtime/metrics"
	"sort"
	"strconv"
	"strings"
	"sync"
	"time"

	"verif/sim/h"

	"github.com/titpetric/vuego/simrt"
)

type request struct {
	Cmd      string     `json:"cmd"`
	Property string     `json:"property,omitempty"`
	Seed     uint64     `json:"seed,omitempty"`
	Run      int        `json:"run,omitempty"`
	Tier     string     `json:"tier,omitempty"`
	Spec     *h.RunSpec `json:"spec,omitempty"`
}

func main() {
	if len(os.Args) < 2 {
		fmt.Fprintln(os.Stderr, "usage: simcheck check|worker|replay|gen ...")
		os.Exit(2)
	}
	switch os.Args[1] {
	case "worker":
		worker()
	case "check":
		if len(os.Args) < 4 {
			fmt.Fprintln(os.Stderr, "usage: simcheck check <property> <quick|thorough>")
			os.Exit(2)
		}
		os.Exit(supervise(os.Args[2], os.Args[3]))
	case "replay":
		os.Exit(replay(os.Args[2]))
	case "gen":
		seed, _ := strconv.ParseUint(os.Args[3], 10, 64)
		run, _ := strconv.Atoi(os.Args[4])
		d := h.Drivers[os.Args[2]]
		b, _ := json.MarshalIndent(d.Gen(seed, run, os.Args[5]), "", " ")
		fmt.Println(string(b))
	case "selftest":
		os.Exit(selftest(os.Args[2:]))
	default:
		fmt.Fprintln(os.Stderr, "unknown command", os.Args[1])
		os.Exit(2)
	}
}

// ---------------------------------------------------------------- worker

func worker() {
	// Unbounded recursion must end in Go's fatal stack overflow within seconds, but a *bounded* recursion a few
	// thousand levels deep is legitimate (an include level costs about 4 KiB of stack): 64 MiB instead of Go's 1 GB.
	debug.SetMaxStack(64 << 20)
	debug.SetGCPercent(200)
	in := bufio.NewReaderSize(os.Stdin, 1<<20)
	out := bufio.NewWriter(os.Stdout)
	enc := json.NewEncoder(out)
	rl := h.NewRaceLog(os.Getenv("SIM_RACE_LOG"))
	go memoryWatchdog()
	h.Warmup()
	for {
		line, err := in.ReadBytes('\n')
		if len(line) > 0 {
			var req request
			if e := json.Unmarshal(line, &req); e != nil {
				fmt.Fprintln(os.Stderr, "worker: bad request:", e)
				os.Exit(2)
			}
			spec := req.Spec
			if req.Cmd == "run" || req.Cmd == "gen" {
				d := h.Drivers[req.Property]
				if d == nil {
					fmt.Fprintln(os.Stderr, "worker: unknown property", req.Property)
					os.Exit(2)
				}
				spec = h.CloneSpec(d.Gen(req.Seed, req.Run, req.Tier)) // same (JSON-normalised) form as a replay file
			}
			if req.Cmd == "gen" {
				enc.Encode(&h.Result{Run: spec.Run, Spec: spec})
				out.Flush()
				continue
			}
			fmt.Fprintf(out, "{\"begin\":%d}\n", spec.Run)
			out.Flush()
			d := h.Drivers[spec.Property]
			res := d.Exec(spec)
			res.Run = spec.Run
			if simrt.RaceEnabled {
				h.AttachRaces(spec, res, rl.Collect())
			}
			if len(res.Violations) > 0 && res.Spec == nil {
				res.Spec = spec
			}
			if e := enc.Encode(res); e != nil {
				fmt.Fprintln(os.Stderr, "worker: encode:", e)
				os.Exit(2)
			}
			out.Flush()
		}
		if err != nil {
			return
		}
	}
}

// memoryWatchdog ends the worker when the heap explodes (a render whose output doubles on every lap of a cycle
// would otherwise take the machine down; the sandbox has no memory limit). The supervisor attributes the death
// to the announced run and classifies it from the marker line.
func memoryWatchdog() {
	limit := uint64(1536 << 20)
	if simrt.RaceEnabled {
		limit = 3 << 30
	}
	samples := []metrics.Sample{{Name: "/memory/classes/heap/objects:bytes"}}
	for {
		time.Sleep(40 * time.Millisecond)
		metrics.Read(samples)
		if samples[0].Value.Kind() == metrics.KindUint64 && samples[0].Value.Uint64() > limit {
			fmt.Fprintf(os.Stderr, "simcheck: memory budget exceeded (%d MiB live heap): unbounded growth\n", samples[0].Value.Uint64()>>20)
			os.Exit(3)
		}
	}
}

// proc is one worker process as seen by the supervisor.
type proc struct {
	cmd   *exec.Cmd
	in    *bufio.Writer
	out   *bufio.Reader
	errb  *tailBuf
	begun int
	dir   string
}

type tailBuf struct {
	mu  sync.Mutex
	buf []byte
}

func (t *tailBuf) Write(p []byte) (int, error) {
	t.mu.Lock()
	t.buf = append(t.buf, p...)
	if len(t.buf) > 1<<16 {
		t.buf = t.buf[len(t.buf)-(1<<16):]
	}
	t.mu.Unlock()
	return len(p), nil
}

func (t *tailBuf) String() string { t.mu.Lock(); defer t.mu.Unlock(); return string(t.buf) }

func binFor(race bool) string {
	self, _ := os.Executable()
	dir := filepath.Dir(self)
	if race {
		return filepath.Join(dir, "simcheck-race")
	}
	return filepath.Join(dir, "simcheck")
}

var procSeq int
var procMu sync.Mutex

func startProc(race bool) (*proc, error) {
	bin := binFor(race)
	c := exec.Command(bin, "worker")
	p := &proc{cmd: c, errb: &tailBuf{}, begun: -1}
	c.Stderr = p.errb
	c.Env = append(os.Environ(), "GOMAXPROCS="+envOr("SIM_WORKER_PROCS", "2"))
	if race {
		c.Env = append(c.Env, "GOMAXPROCS=2")
	}
	if race {
		procMu.Lock()
		procSeq++
		n := procSeq
		procMu.Unlock()
		p.dir = filepath.Join(os.TempDir(), fmt.Sprintf("simcheck-%d-%d", os.Getpid(), n))
		os.MkdirAll(p.dir, 0o755)
		logp := filepath.Join(p.dir, "race")
		c.Env = append(c.Env, "GORACE=log_path="+logp+" halt_on_error=0 history_size=5 suppress_equal_stacks=0 suppress_equal_addresses=0", "SIM_RACE_LOG="+logp)
	}
	wi, err := c.StdinPipe()
	if err != nil {
		return nil, err
	}
	ro, err := c.StdoutPipe()
	if err != nil {
		return nil, err
	}
	if err := c.Start(); err != nil {
		return nil, err
	}
	p.in = bufio.NewWriter(wi)
	p.out = bufio.NewReaderSize(ro, 1<<20)
	return p, nil
}

func envOr(k, d string) string {
	if v := os.Getenv(k); v != "" {
		return v
	}
	return d
}

func (p *proc) stop() {
	if p == nil {
		return
	}
	p.cmd.Process.Kill()
	p.cmd.Wait()
	if p.dir != "" {
		os.RemoveAll(p.dir)
	}
}

// call sends one request and waits for its result. crashed=true when the process died while executing it.
func (p *proc) call(req request, timeout time.Duration) (res *h.Result, crashed bool, crashText string, err error) {
	b, _ := json.Marshal(req)
	p.in.Write(b)
	p.in.WriteByte('\n')
	if e := p.in.Flush(); e != nil {
		return nil, true, p.errb.String(), nil
	}
	type rd struct {
		line []byte
		err  error
	}
	ch := make(chan rd, 4)
	go func() {
		for {
			line, e := p.out.ReadBytes('\n')
			ch <- rd{line, e}
			if e != nil || !strings.HasPrefix(string(line), "{\"begin\"") {
				return
			}
		}
	}()
	timer := time.NewTimer(timeout)
	defer timer.Stop()
	for {
		select {
		case r := <-ch:
			if r.err != nil {
				p.cmd.Wait()
				return nil, true, p.errb.String(), nil
			}
			if strings.HasPrefix(string(r.line), "{\"begin\"") {
				continue
			}
			var out h.Result
			if e := json.Unmarshal(r.line, &out); e != nil {
				return nil, false, "", fmt.Errorf("bad worker output: %v: %s", e, clip(string(r.line), 200))
			}
			return &out, false, "", nil
		case <-timer.C:
			p.cmd.Process.Kill()
			p.cmd.Wait()
			return nil, false, "", fmt.Errorf("watchdog: worker did not answer within %v", timeout)
		}
	}
}

// fingerprint: what two executions of one run must have in common (output digest, kernel steps, verdicts).
func fingerprint(r *h.Result) string {
	var sigs []string
	hasRace := false
	for _, v := range r.Violations {
		if v.Class == "data-race" {
			hasRace = true // which racing pair is printed is detector-internal; that a race is reported is not
			continue
		}
		sigs = append(sigs, v.Property+"|"+v.Class+"|"+v.Signature)
	}
	sort.Strings(sigs)
	return fmt.Sprintf("digest=%s steps=%d cases=%d race=%v viol=%s", r.Digest, r.Stats["steps"], r.Stats["cases"], hasRace, strings.Join(sigs, ";"))
}

// unsupportedNote names the constructs of the code under test that the instrumenter left alone (select, range over a
// channel, sync.Cond / WaitGroup / Map): when a check ends in harness trouble, they are the first suspects.
func unsupportedNote() string {
	exe, err := os.Executable()
	if err != nil {
		return ""
	}
	b, err := os.ReadFile(filepath.Join(filepath.Dir(filepath.Dir(exe)), "sites.json"))
	if err != nil {
		return ""
	}
	var t struct {
		Unsupported []struct {
			Kind, File, Func string
			Line             int
		} `json:"unsupported"`
	}
	if json.Unmarshal(b, &t) != nil || len(t.Unsupported) == 0 {
		return ""
	}
	var parts []string
	for _, u := range t.Unsupported {
		parts = append(parts, fmt.Sprintf("%s at %s:%d (%s)", u.Kind, u.File, u.Line, u.Func))
	}
	return "the code under test uses constructs the simulator does not steer: " + strings.Join(parts, "; ")
}

// probePrint is what the determinism probe compares. With a single task nothing depends on the step counter (no
// schedule, no step-timed edit), and a comparator that the standard library calls a data-dependent number of times
// (a sort over keys it iterated in Go's random order) changes the count without changing anything observable: there
// the count is left out. With several tasks the steps are the schedule: they stay in.
func probePrint(r *h.Result) string {
	f := fingerprint(r)
	if r.Stats["task_switches"] == 0 && len(r.Switches) == 0 {
		if i := strings.Index(f, " steps="); i >= 0 {
			if j := strings.Index(f[i+1:], " "); j >= 0 {
				f = f[:i] + f[i+1+j:]
			}
		}
	}
	return f
}

func clip(s string, n int) string {
	if len(s) <= n {
		return s
	}
	return s[:n] + "…"
}

// execFresh executes a spec in a brand-new worker process.
func execFresh(spec *h.RunSpec, race bool) (*h.Result, error) {
	p, err := startProc(race)
	if err != nil {
		return nil, err
	}
	defer p.stop()
	res, crashed, text, err := p.call(request{Cmd: "exec", Spec: spec}, 120*time.Second)
	if err != nil {
		return nil, err
	}
	if crashed {
		return crashResult(spec, text), nil
	}
	return res, nil
}

// crashResult turns a worker death into a C11-class violation record.
func crashResult(spec *h.RunSpec, stderr string) *h.Result {
	res := &h.Result{Run: spec.Run, Spec: spec}
	class, sig := h.ClassifyCrash(stderr)
	if class == "harness-panic" {
		res.Err = sig + "\n" + clip(firstLines(stderr, 14), 1500) // harness trouble (exit 2), never a verdict
		return res
	}
	res.Violations = append(res.Violations, h.Violation{Property: "C11", Class: class, Signature: sig, Detail: clip(firstLines(stderr, 12), 1500)})
	return res
}

func firstLines(s string, n int) string {
	ls := strings.Split(s, "\n")
	if len(ls) > n {
		ls = ls[:n]
	}
	return strings.Join(ls, "\n")
}

// ---------------------------------------------------------------- supervisor

type knownFile struct {
	Findings []struct {
		Property  string `json:"property"`
		Signature string `json:"signature"`
		What      string `json:"what"`
	} `json:"findings"`
	Fixed []string `json:"fixed"`
}

var shrinkPool = 400

func verifDir() string { return envOr("VERIF_DIR", "/verif") }

func supervise(prop, tier string) int {
	start := time.Now()
	d := h.Drivers[prop]
	if d == nil {
		fmt.Fprintln(os.Stderr, "unknown property", prop)
		return 2
	}
	if tier != "quick" && tier != "thorough" {
		fmt.Fprintln(os.Stderr, "tier must be quick or thorough")
		return 2
	}
	seed := uint64(1)
	if s := os.Getenv("VERIF_SEED"); s != "" {
		if v, err := strconv.ParseUint(s, 10, 64); err == nil {
			seed = v
		}
	}
	fmt.Printf("simcheck: property=%s tier=%s VERIF_SEED=%d race=%v\n", prop, tier, seed, d.Race)
	var known knownFile
	if b, err := os.ReadFile(filepath.Join(verifDir(), "known_findings.json")); err == nil {
		if e := json.Unmarshal(b, &known); e != nil {
			fmt.Fprintln(os.Stderr, "known_findings.json:", e)
			return 2
		}
	}
	nruns := d.Runs(tier)
	if s := os.Getenv("SIM_RUNS"); s != "" {
		if v, err := strconv.Atoi(s); err == nil {
			nruns = v
		}
	}
	budget := 40 * time.Minute
	if tier == "quick" {
		budget = 4 * time.Minute
	}
	if s := os.Getenv("SIM_BUDGET_S"); s != "" {
		if v, err := strconv.Atoi(s); err == nil {
			budget = time.Duration(v) * time.Second
		}
	}
	nw := runtime.NumCPU()
	if nw > 16 {
		nw = 16
	}
	if s := os.Getenv("SIM_WORKERS"); s != "" {
		if v, err := strconv.Atoi(s); err == nil && v > 0 {
			nw = v
		}
	}
	if nw > nruns {
		nw = nruns
	}

	var (
		mu        sync.Mutex
		next      int
		done      int
		stats     = map[string]int64{}
		cover     = map[string]bool{}
		samples   []any
		failing   = map[string]*h.Result{} // signature -> first (lowest run) result
		harnessEr []string
	)
	const probeRuns = 12 // re-executed in another process at the end: replay is only as good as determinism
	fps := map[int]string{}
	merge := func(res *h.Result) {
		mu.Lock()
		defer mu.Unlock()
		done++
		if res.Run < probeRuns {
			fps[res.Run] = probePrint(res)
		}
		for k, v := range res.Stats {
			stats[k] += v
		}
		for _, c := range res.Cover {
			cover[c] = true
		}
		if res.Sample != nil && len(samples) < 6 {
			samples = append(samples, map[string]any{"run": res.Run, "case": res.Sample})
		}
		if res.Err != "" {
			harnessEr = append(harnessEr, fmt.Sprintf("run %d: %s", res.Run, res.Err))
		}
		for _, v := range res.Violations {
			key := v.Property + "|" + v.Signature
			if old, ok := failing[key]; !ok || res.Run < old.Run {
				r := *res
				r.Violations = []h.Violation{v}
				failing[key] = &r
			}
		}
	}
	deadline := start.Add(budget)
	var wg sync.WaitGroup
	for w := 0; w < nw; w++ {
		wg.Add(1)
		go func() {
			defer wg.Done()
			var p *proc
			defer func() { p.stop() }()
			for {
				mu.Lock()
				if next >= nruns || time.Now().After(deadline) {
					mu.Unlock()
					return
				}
				run := next
				next++
				mu.Unlock()
				if p == nil {
					var err error
					if p, err = startProc(d.Race); err != nil {
						mu.Lock()
						harnessEr = append(harnessEr, "start worker: "+err.Error())
						mu.Unlock()
						return
					}
				}
				res, crashed, text, err := p.call(request{Cmd: "run", Property: prop, Seed: seed, Run: run, Tier: tier}, 90*time.Second)
				if err != nil && strings.HasPrefix(err.Error(), "watchdog") {
					// a stalled machine (a VM snapshot, a burst of other load) makes every worker miss its deadline at
					// once: give the run a second, longer chance in a fresh worker before calling it harness trouble
					p.stop()
					p = nil
					mu.Lock()
					stats["watchdog_retries"]++
					mu.Unlock()
					if p, err = startProc(d.Race); err == nil {
						res, crashed, text, err = p.call(request{Cmd: "run", Property: prop, Seed: seed, Run: run, Tier: tier}, 8*time.Minute)
					}
				}
				if err != nil {
					mu.Lock()
					harnessEr = append(harnessEr, fmt.Sprintf("run %d: %v", run, err))
					mu.Unlock()
					p.stop()
					p = nil
					continue
				}
				if crashed {
					p.stop()
					p = nil
					spec := h.CloneSpec(d.Gen(seed, run, tier))
					res = crashResult(spec, text)
					res.Stats = map[string]int64{"worker_crashes": 1}
				}
				merge(res)
			}
		}()
	}
	wg.Wait()
	// determinism probe: the first runs again, in a fresh process and in the opposite order; a difference in output
	// digest, kernel step count or verdict means some source of nondeterminism escaped the seams (an uninstrumented
	// construct introduced by an edit of the code under test, say) and nothing this check reports would replay
	var probeEr []string
	if len(harnessEr) == 0 {
		var p *proc
		for run := probeRuns - 1; run >= 0; run-- {
			want, ok := fps[run]
			if !ok || strings.Contains(want, "worker_crashes") {
				continue
			}
			if p == nil || d.Race {
				p.stop()
				var err error
				if p, err = startProc(d.Race); err != nil {
					break
				}
			}
			res, crashed, _, err := p.call(request{Cmd: "run", Property: prop, Seed: seed, Run: run, Tier: tier}, 5*time.Minute)
			if err != nil || crashed {
				p.stop()
				p = nil
				continue
			}
			stats["determinism_probe_runs"]++
			if got := probePrint(res); got != want {
				probeEr = append(probeEr, fmt.Sprintf("nondeterministic execution of run %d:\n  first:  %s\n  second: %s", run, clip(want, 300), clip(got, 300)))
			}
		}
		p.stop()
	}
	wall := time.Since(start).Seconds()

	if len(harnessEr) > 0 {
		for _, e := range harnessEr {
			fmt.Fprintln(os.Stderr, "HARNESS:", e)
		}
		if n := unsupportedNote(); n != "" {
			fmt.Fprintln(os.Stderr, "HARNESS:", n)
		}
		writeEvidence(d, tier, seed, done, stats, cover, samples, 0, wall, nil)
		return 2
	}

	// classify violations: only those of this property count here; others are noted (C11-class events etc.)
	isKnown := func(v h.Violation) (string, bool) {
		for _, k := range known.Findings {
			if k.Property == v.Property && k.Signature == v.Signature {
				return k.What, true
			}
		}
		return "", false
	}
	var keys []string
	for k := range failing {
		keys = append(keys, k)
	}
	sort.Strings(keys)
	exit := 0
	nviol := 0
	unreproduced := 0
	var knownLines []string
	for _, key := range keys {
		res := failing[key]
		v := res.Violations[0]
		if v.Property != prop {
			stats["other_property_events:"+v.Property]++
			continue
		}
		if what, ok := isKnown(v); ok {
			knownLines = append(knownLines, fmt.Sprintf("KNOWN-FINDING: property=%s %s [signature %s; first at run %d]", prop, what, v.Signature, res.Run))
			stats["known_finding_signatures"]++
			continue
		}
		nviol++
		path, ok, msg := minimiseAndRecord(d, res, v, seed)
		if !ok {
			fmt.Fprintf(os.Stderr, "HARNESS: violation %s at run %d did not reproduce from its replay file: %s\n", v.Signature, res.Run, msg)
			unreproduced++
			continue
		}
		fmt.Printf("violation: class=%s signature=%s run=%d\n  %s\n", v.Class, v.Signature, res.Run, clip(v.Detail, 600))
		fmt.Printf("VIOLATION property=%s replay=%s\n", prop, path)
		exit = 1
	}
	if exit == 0 && unreproduced > 0 {
		// something was seen that does not replay and nothing that does: no verdict. (When other violations of the run
		// did replay - each in a fresh process, from its own file - they stand: the tree under test may itself be
		// nondeterministic, which makes some of its failures irreproducible without making the confirmed ones less real.)
		exit = 2
	}
	for _, l := range knownLines {
		fmt.Println(l)
	}
	if exit == 0 && len(probeEr) > 0 {
		// nothing else to report, but executions of one run differ: not a verdict on the property (the C10 check has
		// its own oracle for output that differs between identical executions), and not a state to call "held"
		for _, e := range probeEr {
			fmt.Fprintln(os.Stderr, "HARNESS:", e)
		}
		if n := unsupportedNote(); n != "" {
			fmt.Fprintln(os.Stderr, "HARNESS:", n)
		}
		exit = 2
	}
	writeEvidence(d, tier, seed, done, stats, cover, samples, nviol, wall, knownLines)
	fmt.Printf("simcheck: %s %s: %d/%d runs, %d cases, %.1fs, %d violation signature(s), %d known finding(s)\n", prop, tier, done, nruns, stats["cases"], wall, nviol, len(knownLines))
	if done == 0 {
		fmt.Fprintln(os.Stderr, "HARNESS: no run completed")
		return 2
	}
	return exit
}

// sameViolation: the violation v recurs in res. For data races the detector's choice of WHICH racing access pair
// on an address it prints is not fully deterministic (about 1% of racy runs differ, see DESIGN.md §4), so a race
// recurs when a reported pair shares at least one access (kind + function) with the recorded pair.
func sameViolation(res *h.Result, v h.Violation) bool {
	for _, x := range res.Violations {
		if x.Property == v.Property && x.Class == v.Class && x.Signature == v.Signature {
			return true
		}
	}
	if v.Class == "data-race" {
		want := raceSides(v.Signature)
		for _, x := range res.Violations {
			if x.Property == v.Property && x.Class == "data-race" {
				for _, s := range raceSides(x.Signature) {
					if s == want[0] || (len(want) > 1 && s == want[1]) {
						return true
					}
				}
			}
		}
	}
	return false
}

func raceSides(sig string) []string {
	return strings.Split(strings.TrimPrefix(sig, "race "), " || ")
}

// minimiseAndRecord shrinks the failing spec, writes the replay file and replays it once more in a fresh process.
func minimiseAndRecord(d *h.Driver, res *h.Result, v h.Violation, seed uint64) (string, bool, string) {
	spec := res.Spec
	if v.Spec != nil {
		spec = v.Spec
	}
	if spec == nil {
		return "", false, "no spec attached to the violating result"
	}
	race := d.Race
	fails := func(c *h.RunSpec) bool {
		tries := 1
		if v.Class == "data-race" {
			tries = 3 // the simulated execution is deterministic; the detector's report selection is not entirely
		}
		for t := 0; t < tries; t++ {
			r, err := execFresh(c, race)
			if err != nil || r == nil {
				if os.Getenv("SIM_DEBUG") != "" {
					fmt.Fprintln(os.Stderr, "execFresh:", err)
				}
				return false
			}
			if sameViolation(r, v) {
				return true
			}
		}
		return false
	}
	// the unminimised spec must itself reproduce in a fresh process
	if !fails(spec) {
		return "", false, "original spec does not reproduce in a fresh process"
	}
	budget := 120
	if s := os.Getenv("SIM_SHRINK_BUDGET"); s != "" {
		if n, err := strconv.Atoi(s); err == nil {
			budget = n
		}
	}
	// all violations of one check share a pool of candidate executions, so that a tree with many
	// violation signatures is still reported in bounded time (later ones are minimised less)
	if shrinkPool < budget {
		budget = shrinkPool
	}
	min, used := h.Shrink(spec, res.Switches, fails, budget)
	shrinkPool -= used
	dir := filepath.Join(verifDir(), "replays", d.ID)
	os.MkdirAll(dir, 0o755)
	path := filepath.Join(dir, fmt.Sprintf("%d-%d-%s-%08x.json", seed, res.Run, sanitize(v.Class), fnv32(v.Signature)))
	if !fails(min) {
		return "", false, "minimised spec does not reproduce"
	}
	final, err := execFresh(min, race)
	if err != nil || final == nil {
		return "", false, "minimised spec does not execute"
	}
	fv := v
	for _, x := range final.Violations {
		if x.Signature == v.Signature {
			fv = x
		}
	}
	rec := map[string]any{
		"property": v.Property, "class": v.Class, "signature": v.Signature, "detail": fv.Detail,
		"found_at": map[string]any{"seed": seed, "run": res.Run}, "shrink_candidates": used,
		"race": race, "spec": min,
	}
	b, _ := json.MarshalIndent(rec, "", " ")
	if err := os.WriteFile(path, b, 0o644); err != nil {
		return "", false, err.Error()
	}
	return path, true, ""
}

func fnv32(s string) uint32 {
	h := uint32(2166136261)
	for i := 0; i < len(s); i++ {
		h = (h ^ uint32(s[i])) * 16777619
	}
	return h
}

func sanitize(s string) string {
	return strings.Map(func(r rune) rune {
		if r >= 'a' && r <= 'z' || r >= 'A' && r <= 'Z' || r >= '0' && r <= '9' || r == '-' {
			return r
		}
		return '_'
	}, s)
}

func replay(path string) int {
	b, err := os.ReadFile(path)
	if err != nil {
		fmt.Fprintln(os.Stderr, err)
		return 2
	}
	var rec struct {
		Property  string     `json:"property"`
		Class     string     `json:"class"`
		Signature string     `json:"signature"`
		Race      bool       `json:"race"`
		Spec      *h.RunSpec `json:"spec"`
	}
	if err := json.Unmarshal(b, &rec); err != nil || rec.Spec == nil {
		fmt.Fprintln(os.Stderr, "bad replay file:", err)
		return 2
	}
	tries := 1
	if rec.Class == "data-race" {
		tries = 3
	}
	var res *h.Result
	for t := 0; t < tries; t++ {
		var err error
		res, err = execFresh(rec.Spec, rec.Race)
		if err != nil {
			fmt.Fprintln(os.Stderr, "HARNESS:", err)
			return 2
		}
		if sameViolation(res, h.Violation{Property: rec.Property, Class: rec.Class, Signature: rec.Signature}) {
			for _, v := range res.Violations {
				if v.Class == rec.Class {
					fmt.Printf("reproduced: class=%s signature=%s\n  %s\n", v.Class, v.Signature, v.Detail)
				}
			}
			fmt.Printf("VIOLATION property=%s replay=%s\n", rec.Property, path)
			return 1
		}
	}
	fmt.Printf("not reproduced: the replay file's violation (%s) does not occur on this tree (%d other violations)\n", rec.Signature, len(res.Violations))
	return 0
}

func writeEvidence(d *h.Driver, tier string, seed uint64, runs int, stats map[string]int64, cover map[string]bool, samples []any, nviol int, wall float64, known []string) {
	faults := map[string]int64{}
	other := map[string]int64{}
	for k, v := range stats {
		if strings.HasPrefix(k, "fault_") {
			faults[strings.TrimPrefix(k, "fault_")] = v
		} else {
			other[k] = v
		}
	}
	evals := stats["cases"]
	if evals == 0 {
		evals = int64(runs)
	}
	if len(samples) == 0 {
		samples = []any{"(no run completed)"}
	}
	perHour := 0.0
	if wall > 0 {
		perHour = float64(runs) / wall * 3600
	}
	kinds := map[string]int{}
	for c := range cover {
		k := c
		if i := strings.IndexByte(c, '/'); i > 0 {
			k = c[:i]
		}
		kinds[k]++
	}
	ev := map[string]any{
		"property_id": d.ID, "tier": tier, "seed": seed, "level": d.Level,
		"coverage": map[string]any{
			"evaluations":         evals,
			"distinct_nontrivial": len(cover),
			"rule":                d.Rule,
			"samples":             samples,
			"simulated_runs":      runs,
			"runs_per_hour":       int64(perHour),
			"kernel_steps":        stats["steps"],
			"simulated_clock_ns":  stats["clock_span_ns"],
			"distinct_by_kind":    kinds,
			"faults_fired":        faults,
			"counters":            other,
			"known_findings":      known,
			"real_components":     []string{"all of vuego (instrumented scratch copy of the working tree; rewrite checked against the repo's own tests in pass-through mode)", "golang.org/x/net/html", "expr-lang/expr", "yaml.v3", "goldmark", "lessgo", "Go runtime and standard library"},
			"stub_components":     []string{"file system (simfs)", "destination writer", "source reader", "context", "clock (time.Now in vuego)", "vuego's sync.Pool instances", "map iteration order inside vuego", "mutex blocking (real mutexes, simulated waiting)", "goroutine scheduling among client tasks"},
		},
		"assumptions": d.Assumes,
		"wall_s":      wall,
		"violations":  nviol,
	}
	b, _ := json.MarshalIndent(ev, "", " ")
	dir := filepath.Join(verifDir(), "evidence")
	os.MkdirAll(dir, 0o755)
	if err := os.WriteFile(filepath.Join(dir, d.ID+".json"), b, 0o644); err != nil {
		fmt.Fprintln(os.Stderr, "evidence:", err)
	}
	// a copy per tier, so that the record of a thorough run survives the next quick run
	os.MkdirAll(filepath.Join(dir, tier), 0o755)
	os.WriteFile(filepath.Join(dir, tier, d.ID+".json"), b, 0o644)
}

// selftest determinism <property> [runs] [seed]
//
// Every run index is executed (a) in a long-lived worker at GOMAXPROCS=1, ascending order,
// (b) in a long-lived worker at GOMAXPROCS=4, descending order (different worker history),
// (c) in a fresh process per run at GOMAXPROCS=16 — and the observable digests (outputs,
// errors, schedule hash, step counts, violation signatures incl. normalised race reports) are diffed.
func selftest(args []string) int {
	if len(args) < 2 || args[0] != "determinism" {
		fmt.Fprintln(os.Stderr, "usage: simcheck selftest determinism <property> [runs] [seed]")
		return 2
	}
	d := h.Drivers[args[1]]
	if d == nil {
		fmt.Fprintln(os.Stderr, "unknown property", args[1])
		return 2
	}
	n := 40
	if len(args) > 2 {
		n, _ = strconv.Atoi(args[2])
	}
	seed := uint64(1)
	if len(args) > 3 {
		seed, _ = strconv.ParseUint(args[3], 10, 64)
	}
	tier := envOr("SIM_SELFTEST_TIER", "quick")
	type cfg struct {
		name  string
		procs string
		fresh bool
		desc  bool
	}
	cfgs := []cfg{{"long-lived/GOMAXPROCS=1/ascending", "1", false, false}, {"long-lived/GOMAXPROCS=4/descending", "4", false, true}, {"fresh-process/GOMAXPROCS=16", "16", true, false}}
	if d.Race {
		// race workers execute one run per process (see startProc callers): all three configurations are fresh processes
		// and at the one GOMAXPROCS value race workers always use (the detector keeps per-P state: its choice of which
		// of several racing access pairs on one address to report varies with the number of Ps; see DESIGN.md §4)
		cfgs = []cfg{{"fresh-process/a", "", true, false}, {"fresh-process/b/descending", "", true, true}, {"fresh-process/c", "", true, false}}
	}
	got := make([]map[int]string, len(cfgs))
	for ci, c := range cfgs {
		got[ci] = map[int]string{}
		os.Setenv("SIM_WORKER_PROCS", c.procs)
		var p *proc
		for k := 0; k < n; k++ {
			run := k
			if c.desc {
				run = n - 1 - k
			}
			if p == nil || c.fresh {
				p.stop()
				var err error
				if p, err = startProc(d.Race); err != nil {
					fmt.Fprintln(os.Stderr, "HARNESS:", err)
					return 2
				}
			}
			res, crashed, text, err := p.call(request{Cmd: "run", Property: d.ID, Seed: seed, Run: run, Tier: tier}, 120*time.Second)
			if err != nil {
				fmt.Fprintln(os.Stderr, "HARNESS:", err)
				return 2
			}
			if crashed {
				cl, sg := h.ClassifyCrash(text)
				got[ci][run] = "crash " + cl + " " + sg
				p.stop()
				p = nil
				continue
			}
			got[ci][run] = fingerprint(res)
		}
		p.stop()
	}
	bad := 0
	for run := 0; run < n; run++ {
		for ci := 1; ci < len(cfgs); ci++ {
			if got[ci][run] != got[0][run] {
				bad++
				fmt.Printf("NONDETERMINISM property=%s seed=%d run=%d\n  %s: %s\n  %s: %s\n", d.ID, seed, run, cfgs[0].name, clip(got[0][run], 400), cfgs[ci].name, clip(got[ci][run], 400))
			}
		}
	}
	fmt.Printf("selftest determinism %s: %d runs x %d configurations, %d mismatches\n", d.ID, n, len(cfgs), bad)
	if bad > 0 {
		return 2
	}
	return 0
}
