#!/usr/bin/env python3
"""Regenerates the table of DESIGN.md section 10 from seeded/*/meta.json."""
import json, os, re, sys
root = os.path.dirname(os.path.dirname(os.path.abspath(__file__)))
rows = []
for d in sorted(os.listdir(os.path.join(root, "seeded"))):
    mp = os.path.join(root, "seeded", d, "meta.json")
    if not os.path.exists(mp):
        continue
    m = json.load(open(mp))
    res = m.get("check_result", "")
    how = "-"
    mm = re.search(r"class=([a-z-]+) signature=(.*?) run=", res)
    if m.get("caught_by_quick_check"):
        how = "`./check %s quick`" % m["property"]
        if mm:
            how += ": %s (%s)" % (mm.group(2).strip()[:110], mm.group(1))
    else:
        how = "**not caught** - " + (m.get("note") or "see meta.json")
    if m.get("note") and m.get("caught_by_quick_check"):
        how += " - " + m["note"]
    rows.append("| `%s` | %s | %s | %s | %s |" % (d, m["property"], m["change"].replace("|", "/"), m["needs_to_manifest"].replace("|", "/"), how.replace("|", "/")))
table = "| seeded change | property | change | needs | caught by |\n|---|---|---|---|---|\n" + "\n".join(rows) + "\n"
p = os.path.join(root, "DESIGN.md")
s = open(p).read()
a = s.index("<!-- seeded-table-begin -->")
b = s.index("<!-- seeded-table-end -->")
s = s[:a] + "<!-- seeded-table-begin -->\n" + table + s[b:]
open(p, "w").write(s)
print(len(rows), "rows")
