#!/bin/bash
# Runs the repository's pinned test suite on /repo as it is (no hooks exist in /repo; the guard is off by
# construction) and compares the set of passing tests with BASELINE.json's stable_pass list.
set -u
export PATH=/root/go/pkg/mod/golang.org/toolchain@v0.0.1-go1.25.5.linux-amd64/bin:$PATH
export GOFLAGS=-mod=mod GOPROXY=off
REPO=${1:-/repo}
OUT=$(mktemp)
( cd "$REPO" && go test -json -vet=off -count=1 -timeout 25m ./... ) > "$OUT" 2>/dev/null
python3 - "$OUT" <<'PY'
import json,sys
passed=set()
for l in open(sys.argv[1]):
    try: e=json.loads(l)
    except: continue
    if e.get('Action')=='pass' and e.get('Test'):
        passed.add(e['Package']+'::'+e['Test'])
base=set(json.load(open('/root/.vp/BASELINE.json'))['stable_pass'])
missing=sorted(base-passed)
print(f"baseline: {len(base)} stable tests, {len(base&passed)} pass, {len(missing)} missing")
for m in missing[:20]: print("  MISSING", m)
sys.exit(1 if missing else 0)
PY
rc=$?
rm -f "$OUT"
exit $rc
