#!/bin/bash
# eval_mutant.sh <mutant dir with patch.diff + demo*_test.go> <property> [extra properties...]
# Confirms in a scratch worktree of /repo HEAD that the change compiles, passes the pinned suite, that the
# demonstration fails with it and passes without it; then runs the quick checks against the changed tree
# (VERIF_REPO=<worktree>; the checks rebuild from whatever tree they are pointed at). Prints a summary line.
set -u
M=$(cd "$1" && pwd); shift
PROPS="$*"
NAME=$(basename "$(dirname "$M")")_$(basename "$M")
WT=/tmp/mut/eval_$NAME
mkdir -p /tmp/mut   # scratch: logs and the worktree live here, nothing a registered command needs
export PATH=/root/go/pkg/mod/golang.org/toolchain@v0.0.1-go1.25.5.linux-amd64/bin:$PATH GOFLAGS=-mod=mod GOPROXY=off
git -C /repo worktree remove --force "$WT" >/dev/null 2>&1
git -C /repo worktree add -q --detach "$WT" HEAD || exit 2
cleanup() { git -C /repo worktree remove --force "$WT" >/dev/null 2>&1; }
trap cleanup EXIT
cd "$WT"
# demonstrations are stored as *_test.go.txt under /verif/seeded (so that no Go tool picks them up there)
STAGE=$(mktemp -d); for f in "$M"/*_test.go "$M"/*_test.go.txt; do [ -f "$f" ] && cp "$f" "$STAGE/$(basename "${f%.txt}")"; done
DEMOS=$(ls "$STAGE"/*_test.go 2>/dev/null)
grep -qi "\-race" "$M/AGENT_README.md" 2>/dev/null && RACE_HINT=1
[ -n "$DEMOS" ] || { echo "RESULT $NAME: no demonstration test file"; exit 2; }
RACEFLAG=""; grep -qi "\-race" "$M/README.md" 2>/dev/null && RACEFLAG="-race"; [ "${RACE_HINT:-0}" = 1 ] && RACEFLAG="-race"
# demo without the change
cp $DEMOS . 
go test $RACEFLAG -vet=off -count=1 -run 'Demo|demo|Seeded|Mutant|Test' . > /tmp/mut/$NAME.demo_clean.log 2>&1; CLEAN=$?
rm -f $(for d in $DEMOS; do basename $d; done)
PATCH="$M/patch.diff"; [ -f "$M/patch.rebased.diff" ] && PATCH="$M/patch.rebased.diff"
git apply "$PATCH" || { echo "RESULT $NAME: patch does not apply"; exit 2; }
go build ./... > /tmp/mut/$NAME.build.log 2>&1 || { echo "RESULT $NAME: does not compile"; exit 2; }
/verif/tools/baseline_check.sh "$WT" > /tmp/mut/$NAME.suite.log 2>&1; SUITE=$?
cp $DEMOS .
go test $RACEFLAG -vet=off -count=1 -run 'Demo|demo|Seeded|Mutant|Test' . > /tmp/mut/$NAME.demo_mut.log 2>&1; MUT=$?
rm -f $(for d in $DEMOS; do basename $d; done)
echo "confirm $NAME: suite_with_change=$SUITE(0=pass) demo_without_change=$CLEAN(0=pass) demo_with_change=$MUT(nonzero=fail)"
MACH=${EVAL_MACHINERY:-/verif}   # a frozen copy of the machinery may be used so that edits in /verif do not disturb a running wave
for P in $PROPS; do
  VERIF_REPO="$WT" VERIF_DIR=/tmp/mut/verifout_$NAME /bin/bash -c "mkdir -p /tmp/mut/verifout_$NAME && cp /verif/known_findings.json /tmp/mut/verifout_$NAME/ && cd $MACH && B=\$(VERIF_REPO=$WT ./build.sh 'plain race' | tail -1) && VERIF_DIR=/tmp/mut/verifout_$NAME \$B/bin/simcheck check $P quick" > /tmp/mut/$NAME.check_$P.log 2>&1
  RC=$?
  echo "RESULT $NAME check=$P exit=$RC $(grep -c '^VIOLATION' /tmp/mut/$NAME.check_$P.log) violation line(s); $(grep '^violation:' /tmp/mut/$NAME.check_$P.log | head -2 | cut -c1-220 | tr '\n' ' ')"
done
