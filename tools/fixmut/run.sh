#!/bin/bash
# run.sh <mutants dir made by fixmut> <id> : evaluates one first-order mutant of a fix: line.
#   1. scratch worktree of /repo HEAD under /tmp/fmw/<id>/repo (own parent dir: a repo test walks "../")
#   2. mutated file copied in; go build ./... (does not compile -> nocompile)
#   3. pinned suite (tools/baseline_check.sh): a missing stable test -> killed-by-suite
#   4. survivors: ./build.sh + simcheck check <property> quick for the property(ies) the fix commit is recorded under
# Prints one line: id <TAB> verdict <TAB> details. Leaves nothing behind (worktree, build dir removed).
set -u
DIR=$1; ID=$2
V=/verif
MACH=${EVAL_MACHINERY:-$V}
ROW=$(grep -P "^$ID\t" "$DIR/index.tsv")
FILE=$(echo "$ROW" | cut -f2); COMMIT=$(echo "$ROW" | cut -f4 | cut -c1-7)
PROPS=$(python3 - "$COMMIT" <<'PY'
import json,re,sys
k=json.load(open('/verif/known_findings.json'))
ps=set()
for f in k['fixed']:
    m=re.match(r'fixed: property=(\S+) (\w+) ',f)
    if m and m.group(2)[:7]==sys.argv[1]: ps.add(m.group(1))
print(' '.join(sorted(ps)))
PY
)
[ -n "${FORCE_PROPS:-}" ] && PROPS="$FORCE_PROPS"
W=/tmp/fmw/$ID; WT=$W/repo
rm -rf "$W"; mkdir -p "$W" /tmp/mut
BASE=$(cat "$DIR/BASE" 2>/dev/null || echo HEAD)   # the commit the mutants were generated from
git -C /repo worktree add -q --detach "$WT" "$BASE" || { echo -e "$ID\tharness-error\tworktree"; exit 2; }
cleanup() { git -C /repo worktree remove --force "$WT" >/dev/null 2>&1; rm -rf "$W"; }
trap cleanup EXIT
cp "$DIR/$ID/$FILE" "$WT/$FILE"
( export PATH=/root/go/pkg/mod/golang.org/toolchain@v0.0.1-go1.25.5.linux-amd64/bin:$PATH GOFLAGS=-mod=mod GOPROXY=off; cd "$WT" && go build ./... ) >"$W/build.log" 2>&1 || { echo -e "$ID\tnocompile\t$(head -2 "$W/build.log" | tr '\n' ' ' | cut -c1-120)"; exit 0; }
$V/tools/baseline_check.sh "$WT" >"$W/suite.log" 2>&1 || { echo -e "$ID\tkilled-by-suite\t$(grep -c MISSING "$W/suite.log") stable test(s) fail"; exit 0; }
RES=""; CAUGHT=0
for P in $PROPS; do
  FL=plain; case $P in C09|C15) FL='plain race';; esac
  OUT=$W/out_$P; mkdir -p "$OUT"; cp $V/known_findings.json "$OUT/"
  B=$(cd "$MACH" && VERIF_REPO="$WT" SIM_SKIP_FAITHFULNESS=1 ./build.sh "$FL" 2>"$W/sim_build_$P.log" | tail -1)
  if [ ! -x "$B/bin/simcheck" ]; then RES="$RES $P=build-failed"; continue; fi
  VERIF_DIR="$OUT" SIM_WORKERS=${SIM_WORKERS:-8} "$B/bin/simcheck" check $P quick >"$W/check_$P.log" 2>&1
  RC=$?
  SIG=$(grep '^violation:' "$W/check_$P.log" | head -1 | sed 's/.*signature=//; s/ run=.*//' | cut -c1-110)
  RES="$RES $P=exit$RC${SIG:+[$SIG]}"
  [ $RC = 1 ] && CAUGHT=1
  [ $RC = 2 ] && cp "$W/check_$P.log" /tmp/mut/fm_exit2_${ID}_$P.log
  rm -rf "$B"
done
if [ $CAUGHT = 1 ]; then echo -e "$ID\tcaught\t$RES"; else echo -e "$ID\tsurvived\t$RES"; fi
