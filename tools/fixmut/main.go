// fixmut generates first-order mutants of the statements that the fix: commits added to /repo
// (one mutated copy of one file per mutant). It is a sensitivity probe for the checks in /verif:
// every line a fix commit added exists because of one of the properties, so removing or inverting
// it should either be caught by the pinned test suite, or by the property's check, or be shown to
// be behaviour-preserving. Usage:
//
//	fixmut <repo dir> <lines file: "path:line commit" per line> <out dir>
//
// Output: <out>/<id>/<path> (the mutated file) and <out>/index.tsv (id, path, line, commit, operator, text).
package main

import (
	"bufio"
	"fmt"
	"go/ast"
	"go/parser"
	"go/token"
	"os"
	"path/filepath"
	"sort"
	"strings"
)

type edit struct {
	from, to int
	text     string
}

type mutant struct {
	path, commit, op, note string
	line                   int
	edits                  []edit
}

func main() {
	if len(os.Args) != 4 {
		fmt.Fprintln(os.Stderr, "usage: fixmut <repo> <lines> <out>")
		os.Exit(2)
	}
	repo, linesFile, out := os.Args[1], os.Args[2], os.Args[3]
	lines := map[string]map[int]string{}
	f, err := os.Open(linesFile)
	if err != nil {
		panic(err)
	}
	sc := bufio.NewScanner(f)
	for sc.Scan() {
		var loc, commit string
		fmt.Sscan(sc.Text(), &loc, &commit)
		i := strings.LastIndex(loc, ":")
		var n int
		fmt.Sscan(loc[i+1:], &n)
		if lines[loc[:i]] == nil {
			lines[loc[:i]] = map[int]string{}
		}
		lines[loc[:i]][n] = commit
	}
	var paths []string
	for p := range lines {
		paths = append(paths, p)
	}
	sort.Strings(paths)
	var all []mutant
	for _, p := range paths {
		all = append(all, mutate(repo, p, lines[p])...)
	}
	os.MkdirAll(out, 0o755)
	idx, _ := os.Create(filepath.Join(out, "index.tsv"))
	defer idx.Close()
	for i, m := range all {
		id := fmt.Sprintf("fm%03d", i)
		src, _ := os.ReadFile(filepath.Join(repo, m.path))
		sort.Slice(m.edits, func(a, b int) bool { return m.edits[a].from > m.edits[b].from })
		for _, e := range m.edits {
			src = append(append(append([]byte{}, src[:e.from]...), e.text...), src[e.to:]...)
		}
		dst := filepath.Join(out, id, m.path)
		os.MkdirAll(filepath.Dir(dst), 0o755)
		os.WriteFile(dst, src, 0o644)
		fmt.Fprintf(idx, "%s\t%s\t%d\t%s\t%s\t%s\n", id, m.path, m.line, m.commit, m.op, strings.ReplaceAll(m.note, "\n", " "))
	}
	fmt.Println(len(all), "mutants")
}

func mutate(repo, path string, fixLines map[int]string) []mutant {
	fset := token.NewFileSet()
	src, err := os.ReadFile(filepath.Join(repo, path))
	if err != nil {
		panic(err)
	}
	file, err := parser.ParseFile(fset, path, src, parser.ParseComments)
	if err != nil {
		panic(err)
	}
	off := func(p token.Pos) int { return fset.Position(p).Offset }
	line := func(p token.Pos) int { return fset.Position(p).Line }
	text := func(n ast.Node) string {
		s := string(src[off(n.Pos()):off(n.End())])
		if len(s) > 90 {
			s = s[:90] + "..."
		}
		return s
	}
	var out []mutant
	add := func(n ast.Node, op string, edits ...edit) {
		c, ok := fixLines[line(n.Pos())]
		if !ok {
			return
		}
		out = append(out, mutant{path: path, commit: c, op: op, line: line(n.Pos()), note: text(n), edits: edits})
	}
	swap := map[token.Token]string{token.EQL: "!=", token.NEQ: "==", token.LAND: "||", token.LOR: "&&", token.LSS: "<=", token.LEQ: "<", token.GTR: ">=", token.GEQ: ">"}
	ast.Inspect(file, func(n ast.Node) bool {
		switch x := n.(type) {
		case *ast.IfStmt:
			add(x, "if-false", edit{off(x.Cond.Pos()), off(x.Cond.End()), "false"})
			add(x, "if-true", edit{off(x.Cond.Pos()), off(x.Cond.End()), "true"})
		case *ast.BinaryExpr:
			if s, ok := swap[x.Op]; ok {
				add(x, "op "+x.Op.String()+" -> "+s, edit{off(x.OpPos), off(x.OpPos) + len(x.Op.String()), s})
			}
		case *ast.BlockStmt:
			for _, st := range x.List {
				switch s := st.(type) {
				case *ast.ExprStmt, *ast.DeferStmt, *ast.IncDecStmt, *ast.GoStmt:
					add(s, "delete", edit{off(s.Pos()), off(s.End()), ";"})
				case *ast.AssignStmt:
					if s.Tok != token.DEFINE {
						add(s, "delete", edit{off(s.Pos()), off(s.End()), ";"})
					}
				case *ast.ReturnStmt, *ast.BranchStmt:
					// covered by the enclosing if
				}
			}
		case *ast.CaseClause:
			for _, st := range x.Body {
				switch s := st.(type) {
				case *ast.ExprStmt, *ast.DeferStmt, *ast.IncDecStmt:
					add(s, "delete", edit{off(s.Pos()), off(s.End()), ";"})
				case *ast.AssignStmt:
					if s.Tok != token.DEFINE {
						add(s, "delete", edit{off(s.Pos()), off(s.End()), ";"})
					}
				}
			}
		}
		return true
	})
	return out
}
