module fixmut

go 1.26
