// simgen instruments a scratch copy of titpetric/vuego for deterministic
// simulation. It never touches /repo: it is pointed at a copy of the working
// tree and rewrites the non-test Go files of the selected packages in place.
//
// The rewrite is a list of byte-offset text edits computed from go/types
// information; no edit introduces a newline, so every line of the instrumented
// file is the same line of the original file (stack traces and race reports
// name /repo positions).
//
// Rewrites (resolved by type, not by name):
//
//	function / func-literal / loop body entry   -> simrt.Yield(site) prepended
//	range over a map                            -> range simrt.MapSeq(site, m)
//	(reflect.Value).MapKeys()                   -> simrt.PermuteValues(site, …)
//	(reflect.Value).MapRange()                  -> simrt.MapRange(site, …)
//	time.Now                                    -> simrt.Now
//	sync.Mutex/RWMutex/Once/Pool (type uses)    -> simrt.Mutex/RWMutex/Once/Pool
//	go f(x)                                     -> simrt.Go(func(){ f(x) })
//	package-level vars of mutable sim-relevant type get a reset hook
//
// channel operations, select, sync.Cond, sync.WaitGroup are reported as
// UNSUPPORTED (listed in the site table); they are left alone.
package main

import (
	"encoding/json"
	"flag"
	"fmt"
	"go/ast"
	"go/token"
	"go/types"
	"os"
	"path/filepath"
	"sort"
	"strings"

	"golang.org/x/tools/go/packages"
)

type edit struct {
	off  int // byte offset in the original file
	del  int // bytes to delete
	text string
	seq  int // stable order for edits at the same offset
}

type site struct {
	ID   int    `json:"id"`
	Kind string `json:"kind"`
	File string `json:"file"`
	Line int    `json:"line"`
	Func string `json:"func"`
	Expr string `json:"expr,omitempty"`
}

type fileEdits struct {
	path  string
	src   []byte
	edits []edit
	// package-level vars to reset: name -> initializer span (or zero value type span)
	resets []resetVar
	used   bool
}

type resetVar struct {
	name     string
	initFrom int
	initTo   int
	typeFrom int
	typeTo   int
}

var (
	sites   []site
	unsupp  []site
	editSeq int
)

const simrtPath = "github.com/titpetric/vuego/simrt"

func main() {
	dir := flag.String("dir", "", "root of the scratch copy of the vuego module")
	out := flag.String("sites", "", "write the site table (JSON) here")
	pkgsFlag := flag.String("pkgs", ".,./internal/helpers,./internal/ulid,./internal/reflect,./internal/parser,./markdown,./diff,./formatter", "packages to instrument (relative to -dir)")
	flag.Parse()
	if *dir == "" {
		fmt.Fprintln(os.Stderr, "simgen: -dir required")
		os.Exit(2)
	}
	abs, err := filepath.Abs(*dir)
	if err != nil {
		fatal(err)
	}
	cfg := &packages.Config{
		Mode: packages.NeedName | packages.NeedFiles | packages.NeedCompiledGoFiles | packages.NeedSyntax |
			packages.NeedTypes | packages.NeedTypesInfo | packages.NeedImports | packages.NeedDeps,
		Dir:   abs,
		Tests: false,
	}
	pkgs, err := packages.Load(cfg, strings.Split(*pkgsFlag, ",")...)
	if err != nil {
		fatal(err)
	}
	bad := false
	for _, p := range pkgs {
		for _, e := range p.Errors {
			fmt.Fprintf(os.Stderr, "simgen: %s: %v\n", p.PkgPath, e)
			bad = true
		}
	}
	if bad {
		os.Exit(2)
	}
	sort.Slice(pkgs, func(i, j int) bool { return pkgs[i].PkgPath < pkgs[j].PkgPath })
	for _, p := range pkgs {
		if p.PkgPath == simrtPath {
			continue
		}
		instrumentPackage(abs, p)
	}
	if *out != "" {
		b, _ := json.MarshalIndent(map[string]any{"sites": sites, "unsupported": unsupp}, "", " ")
		if err := os.WriteFile(*out, b, 0o644); err != nil {
			fatal(err)
		}
	}
	fmt.Printf("simgen: %d sites, %d unsupported constructs\n", len(sites), len(unsupp))
	for _, u := range unsupp {
		fmt.Printf("UNSUPPORTED %s %s:%d in %s\n", u.Kind, u.File, u.Line, u.Func)
	}
}

func fatal(err error) {
	fmt.Fprintln(os.Stderr, "simgen:", err)
	os.Exit(2)
}

func instrumentPackage(root string, p *packages.Package) {
	for i, f := range p.Syntax {
		path := p.CompiledGoFiles[i]
		if strings.HasSuffix(path, "_test.go") || !strings.HasPrefix(path, root) {
			continue
		}
		src, err := os.ReadFile(path)
		if err != nil {
			fatal(err)
		}
		fe := &fileEdits{path: path, src: src}
		rel, _ := filepath.Rel(root, path)
		instrumentFile(p, f, fe, rel)
		if !fe.used {
			continue
		}
		outSrc := fe.apply()
		if err := os.WriteFile(path, outSrc, 0o644); err != nil {
			fatal(err)
		}
	}
}

func (fe *fileEdits) add(off, del int, text string) {
	editSeq++
	fe.edits = append(fe.edits, edit{off: off, del: del, text: text, seq: editSeq})
	fe.used = true
}

// rewritten returns the rewritten text of the original span [from,to).
func (fe *fileEdits) rewritten(from, to int) string {
	var es []edit
	for _, e := range fe.edits {
		if e.off >= from && e.off+e.del <= to {
			es = append(es, e)
		}
	}
	sort.SliceStable(es, func(i, j int) bool {
		if es[i].off != es[j].off {
			return es[i].off < es[j].off
		}
		return es[i].seq < es[j].seq
	})
	var b strings.Builder
	pos := from
	for _, e := range es {
		if e.off < pos {
			// overlapping edit (nested replacement); skip, outer one wins
			continue
		}
		b.Write(fe.src[pos:e.off])
		b.WriteString(e.text)
		pos = e.off + e.del
	}
	b.Write(fe.src[pos:to])
	return b.String()
}

func (fe *fileEdits) apply() []byte {
	body := fe.rewritten(0, len(fe.src))
	var tail strings.Builder
	if len(fe.resets) > 0 {
		tail.WriteString("\nfunc init() { simrt.RegisterReset(func() {")
		for _, r := range fe.resets {
			if r.initTo > r.initFrom {
				fmt.Fprintf(&tail, " %s = %s;", r.name, fe.rewritten(r.initFrom, r.initTo))
			} else {
				fmt.Fprintf(&tail, " %s = *new(%s);", r.name, fe.rewritten(r.typeFrom, r.typeTo))
			}
		}
		tail.WriteString(" }) }\n")
	}
	return []byte(body + tail.String())
}

func instrumentFile(p *packages.Package, f *ast.File, fe *fileEdits, rel string) {
	fset := p.Fset
	tf := fset.File(f.Pos())
	off := func(pos token.Pos) int { return tf.Offset(pos) }
	info := p.TypesInfo

	newSite := func(kind string, pos token.Pos, fn, expr string) int {
		id := len(sites) + 1
		sites = append(sites, site{ID: id, Kind: kind, File: rel, Line: fset.Position(pos).Line, Func: fn, Expr: expr})
		return id
	}
	text := func(n ast.Node) string { return string(fe.src[off(n.Pos()):off(n.End())]) }

	importsTime, importsSync, importsMaps := false, false, false
	for _, im := range f.Imports {
		if im.Name != nil && im.Name.Name != "time" && im.Name.Name != "sync" && im.Name.Name != "maps" {
			continue
		}
		switch strings.Trim(im.Path.Value, `"`) {
		case "time":
			importsTime = true
		case "sync":
			importsSync = true
		case "maps":
			importsMaps = true
		}
	}

	recv2 := map[*ast.UnaryExpr]bool{}
	inSelect := map[*ast.UnaryExpr]bool{}
	selSend := map[*ast.SendStmt]bool{}
	var funcStack []string
	curFunc := func() string {
		if len(funcStack) == 0 {
			return "<package>"
		}
		return funcStack[len(funcStack)-1]
	}

	yieldAt := func(body *ast.BlockStmt, kind string) {
		if body == nil {
			return
		}
		id := newSite(kind, body.Lbrace, curFunc(), "")
		fe.add(off(body.Lbrace)+1, 0, fmt.Sprintf(" simrt.Yield(%d);", id))
	}

	// statement-level scheduling points: before every statement of a block except the first (the block's own
	// entry already yields) - so that two statements of one function can be separated by another task
	stmtYields := func(list []ast.Stmt) {
		if len(funcStack) == 0 {
			return
		}
		for i, st := range list {
			if i == 0 {
				continue
			}
			switch st.(type) {
			case *ast.EmptyStmt, *ast.CaseClause, *ast.CommClause:
				continue
			}
			id := newSite("stmt", st.Pos(), curFunc(), "")
			fe.add(off(st.Pos()), 0, fmt.Sprintf("simrt.Yield(%d); ", id))
		}
	}

	isSyncType := func(sel *ast.SelectorExpr) (string, bool) {
		obj := info.Uses[sel.Sel]
		tn, ok := obj.(*types.TypeName)
		if !ok || tn.Pkg() == nil || tn.Pkg().Path() != "sync" {
			return "", false
		}
		return tn.Name(), true
	}

	var walk func(n ast.Node) bool
	walk = func(n ast.Node) bool {
		switch x := n.(type) {
		case *ast.FuncDecl:
			name := x.Name.Name
			if x.Recv != nil && len(x.Recv.List) > 0 {
				name = recvName(x.Recv.List[0].Type) + "." + name
			}
			funcStack = append(funcStack, name)
			if x.Recv != nil {
				ast.Inspect(x.Recv, walk)
			}
			ast.Inspect(x.Type, walk)
			if x.Body != nil {
				yieldAt(x.Body, "func")
				ast.Inspect(x.Body, walk)
			}
			funcStack = funcStack[:len(funcStack)-1]
			return false
		case *ast.FuncLit:
			funcStack = append(funcStack, curFunc()+".func")
			ast.Inspect(x.Type, walk)
			yieldAt(x.Body, "funclit")
			ast.Inspect(x.Body, walk)
			funcStack = funcStack[:len(funcStack)-1]
			return false
		case *ast.BlockStmt:
			stmtYields(x.List)
		case *ast.CaseClause:
			stmtYields(x.Body)
		case *ast.CommClause:
			stmtYields(x.Body)
		case *ast.ForStmt:
			yieldAt(x.Body, "loop")
		case *ast.RangeStmt:
			yieldAt(x.Body, "loop")
			if tv, ok := info.Types[x.X]; ok {
				if _, isMap := tv.Type.Underlying().(*types.Map); isMap {
					id := newSite("maprange", x.X.Pos(), curFunc(), text(x.X))
					fe.add(off(x.X.Pos()), 0, fmt.Sprintf("simrt.MapSeq(%d, ", id))
					fe.add(off(x.X.End()), 0, ")")
				}
				if _, isChan := tv.Type.Underlying().(*types.Chan); isChan {
					unsupp = append(unsupp, site{Kind: "range-chan", File: rel, Line: fset.Position(x.Pos()).Line, Func: curFunc()})
				}
			}
		case *ast.GoStmt:
			id := newSite("go", x.Pos(), curFunc(), text(x.Call))
			fe.add(off(x.Pos()), off(x.Call.Pos())-off(x.Pos()), fmt.Sprintf("simrt.Go(%d, func() { ", id))
			fe.add(off(x.Call.End()), 0, " })")
		case *ast.SendStmt:
			if selSend[x] {
				break
			}
			newSite("chan-send", x.Pos(), curFunc(), text(x))
			fe.add(off(x.Chan.Pos()), 0, "simrt.Send(")
			fe.add(off(x.Arrow), 2, ",")
			fe.add(off(x.Value.End()), 0, ")")
		case *ast.AssignStmt:
			// v, ok := <-ch
			if len(x.Lhs) == 2 && len(x.Rhs) == 1 {
				if u, ok := x.Rhs[0].(*ast.UnaryExpr); ok && u.Op == token.ARROW {
					newSite("chan-recv2", u.Pos(), curFunc(), text(u))
					fe.add(off(u.Pos()), off(u.X.Pos())-off(u.Pos()), "simrt.Recv2(")
					fe.add(off(u.X.End()), 0, ")")
					recv2[u] = true
				}
			}
		case *ast.ExprStmt:
			// close(ch) -> close(ch); simrt.Wake()
			if c, ok := x.X.(*ast.CallExpr); ok {
				if id, ok := c.Fun.(*ast.Ident); ok && id.Name == "close" {
					if _, isBuiltin := info.Uses[id].(*types.Builtin); isBuiltin {
						newSite("chan-close", x.Pos(), curFunc(), text(x))
						fe.add(off(x.End()), 0, "; simrt.Wake()")
					}
				}
			}
		case *ast.SelectStmt:
			unsupp = append(unsupp, site{Kind: "select", File: rel, Line: fset.Position(x.Pos()).Line, Func: curFunc()})
			// channel operations in the comm clauses of a select stay as they are
			for _, cl := range x.Body.List {
				if cc, ok := cl.(*ast.CommClause); ok && cc.Comm != nil {
					ast.Inspect(cc.Comm, func(n ast.Node) bool {
						if u, ok := n.(*ast.UnaryExpr); ok && u.Op == token.ARROW {
							inSelect[u] = true
						}
						if ss, ok := n.(*ast.SendStmt); ok {
							selSend[ss] = true
						}
						return true
					})
				}
			}
		case *ast.UnaryExpr:
			if x.Op == token.ARROW && !recv2[x] && !inSelect[x] {
				newSite("chan-recv", x.Pos(), curFunc(), text(x))
				fe.add(off(x.Pos()), off(x.X.Pos())-off(x.Pos()), "simrt.Recv(")
				fe.add(off(x.X.End()), 0, ")")
			}
		case *ast.CallExpr:
			if sel, ok := x.Fun.(*ast.SelectorExpr); ok {
				// maps.Keys(m), maps.Values(m), maps.All(m) (package maps of the standard library): iterators over a
				// map in Go's random order -> simrt.MapKeys / MapValues / MapSeq under the run's map-order policy
				if fn, ok := info.Uses[sel.Sel].(*types.Func); ok && fn.Pkg() != nil && fn.Pkg().Path() == "maps" && len(x.Args) == 1 {
					if _, isPkg := info.Uses[identOf(sel.X)].(*types.PkgName); isPkg {
						repl := map[string]string{"Keys": "simrt.MapKeys", "Values": "simrt.MapValues", "All": "simrt.MapSeq"}[fn.Name()]
						if repl != "" {
							id := newSite("maps."+fn.Name(), x.Pos(), curFunc(), text(x))
							fe.add(off(x.Fun.Pos()), off(x.Fun.End())-off(x.Fun.Pos()), repl)
							fe.add(off(x.Args[0].Pos()), 0, fmt.Sprintf("%d, ", id))
						}
					}
				}
				if s := info.Selections[sel]; s != nil && s.Kind() == types.MethodVal {
					if fn, ok := s.Obj().(*types.Func); ok && fn.Pkg() != nil && fn.Pkg().Path() == "reflect" && fn.Name() == "MapKeys" {
						id := newSite("mapkeys", x.Pos(), curFunc(), text(x))
						fe.add(off(x.Pos()), 0, fmt.Sprintf("simrt.PermuteValues(%d, ", id))
						fe.add(off(x.End()), 0, ")")
					}
					if fn, ok := s.Obj().(*types.Func); ok && fn.Pkg() != nil && fn.Pkg().Path() == "reflect" && fn.Name() == "MapRange" {
						// X.MapRange() -> simrt.MapRange(site, X): same Next/Key/Value protocol, order by the run's policy
						id := newSite("maprange", x.Pos(), curFunc(), text(x))
						fe.add(off(x.Pos()), 0, fmt.Sprintf("simrt.MapRange(%d, ", id))
						fe.add(off(sel.X.End()), off(x.End())-off(sel.X.End()), ")")
					}
				}
			}
		case *ast.SelectorExpr:
			if obj, ok := info.Uses[x.Sel].(*types.Func); ok && obj.Pkg() != nil && obj.Pkg().Path() == "time" && obj.Name() == "Now" {
				if _, isPkg := info.Uses[identOf(x.X)].(*types.PkgName); isPkg {
					newSite("now", x.Pos(), curFunc(), "")
					fe.add(off(x.Pos()), off(x.End())-off(x.Pos()), "simrt.Now")
				}
			}
			if name, ok := isSyncType(x); ok {
				switch name {
				case "Mutex", "RWMutex", "Once", "Pool":
					newSite("sync."+name, x.Pos(), curFunc(), "")
					fe.add(off(x.Pos()), off(x.End())-off(x.Pos()), "simrt."+name)
				case "WaitGroup", "Cond", "Map":
					unsupp = append(unsupp, site{Kind: "sync." + name, File: rel, Line: fset.Position(x.Pos()).Line, Func: curFunc()})
				}
			}
		}
		return true
	}
	ast.Inspect(f, walk)

	// package-level vars to reset between runs
	for _, d := range f.Decls {
		gd, ok := d.(*ast.GenDecl)
		if !ok || gd.Tok != token.VAR {
			continue
		}
		for _, sp := range gd.Specs {
			vs := sp.(*ast.ValueSpec)
			for i, name := range vs.Names {
				if name.Name == "_" {
					continue
				}
				obj := info.Defs[name]
				if obj == nil || !needsReset(obj.Type(), 0) {
					continue
				}
				rv := resetVar{name: name.Name}
				if len(vs.Values) == len(vs.Names) {
					rv.initFrom, rv.initTo = off(vs.Values[i].Pos()), off(vs.Values[i].End())
				} else if len(vs.Values) == 0 && vs.Type != nil {
					rv.typeFrom, rv.typeTo = off(vs.Type.Pos()), off(vs.Type.End())
				} else {
					continue
				}
				fe.resets = append(fe.resets, rv)
				fe.used = true
				sites = append(sites, site{ID: len(sites) + 1, Kind: "reset", File: rel, Line: fset.Position(name.Pos()).Line, Func: "<package>", Expr: name.Name})
			}
		}
	}

	if fe.used {
		// import on the package line keeps line numbers intact
		fe.add(off(f.Name.End()), 0, `; import simrt "`+simrtPath+`"`)
		var keep strings.Builder
		keep.WriteString("\nvar _ = simrt.Yield\n")
		if importsTime {
			keep.WriteString("var _ time.Duration\n")
		}
		if importsSync {
			keep.WriteString("var _ sync.Locker\n")
		}
		if importsMaps {
			keep.WriteString("var _ = maps.Clone[map[int]int]\n")
		}
		fe.add(len(fe.src), 0, keep.String())
	}
}

func identOf(e ast.Expr) *ast.Ident {
	if id, ok := e.(*ast.Ident); ok {
		return id
	}
	return &ast.Ident{}
}

func recvName(e ast.Expr) string {
	switch x := e.(type) {
	case *ast.StarExpr:
		return recvName(x.X)
	case *ast.Ident:
		return x.Name
	case *ast.IndexExpr:
		return recvName(x.X)
	case *ast.IndexListExpr:
		return recvName(x.X)
	}
	return "?"
}

// needsReset reports whether a package-level variable of type t carries state
// that a simulated run can change and that influences later runs: sync types
// (which become simrt types) and maps, directly or behind pointers/structs.
func needsReset(t types.Type, depth int) bool {
	if depth > 4 {
		return false
	}
	switch u := t.(type) {
	case *types.Named:
		if o := u.Obj(); o.Pkg() != nil && o.Pkg().Path() == "sync" {
			switch o.Name() {
			case "Mutex", "RWMutex", "Once", "Pool":
				return true
			}
			return false
		}
		if o := u.Obj(); o.Pkg() != nil && (o.Pkg().Path() == "regexp") {
			return false
		}
		return needsReset(u.Underlying(), depth+1)
	case *types.Alias:
		return needsReset(types.Unalias(u), depth+1)
	case *types.Pointer:
		return needsReset(u.Elem(), depth+1)
	case *types.Map:
		return true
	case *types.Struct:
		for i := 0; i < u.NumFields(); i++ {
			if needsReset(u.Field(i).Type(), depth+1) {
				return true
			}
		}
	}
	return false
}
