package simrt

// rng is xoshiro256** seeded through splitmix64. All methods are norace: the
// generator is kernel state shared between tasks under the baton.
type rng struct{ s [4]uint64 }

//go:norace
func (r *rng) seed(x uint64) {
	for i := range r.s {
		x += 0x9e3779b97f4a7c15
		z := x
		z = (z ^ (z >> 30)) * 0xbf58476d1ce4e5b9
		z = (z ^ (z >> 27)) * 0x94d049bb133111eb
		r.s[i] = z ^ (z >> 31)
	}
}

//go:norace
func (r *rng) next() uint64 {
	s := &r.s
	res := rotl(s[1]*5, 7) * 9
	t := s[1] << 17
	s[2] ^= s[0]
	s[3] ^= s[1]
	s[1] ^= s[2]
	s[0] ^= s[3]
	s[2] ^= t
	s[3] = rotl(s[3], 45)
	return res
}

//go:norace
func rotl(x uint64, k uint) uint64 { return (x << k) | (x >> (64 - k)) }

// below returns a value in [0,n).
//
//go:norace
func (r *rng) below(n uint64) uint64 {
	if n == 0 {
		return 0
	}
	return r.next() % n
}
