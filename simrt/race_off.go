//go:build !race

package simrt

import "unsafe"

// RaceEnabled reports whether the binary was built with -race.
const RaceEnabled = false

func raceReleaseMerge(p unsafe.Pointer) {}
func raceAcquire(p unsafe.Pointer)      {}
