//go:build race

package simrt

import (
	"runtime"
	"unsafe"
)

// RaceEnabled reports whether the binary was built with -race.
const RaceEnabled = true

func raceReleaseMerge(p unsafe.Pointer) { runtime.RaceReleaseMerge(p) }
func raceAcquire(p unsafe.Pointer)      { runtime.RaceAcquire(p) }
