package simrt

import "time"

// ClockSpec is the simulated clock behind time.Now in the instrumented code.
// The clock advances TickNs on every Every-th read (Every<=1: each read);
// at read number JumpAtCall it additionally jumps by JumpNs (may be negative).
// TickNs == 0 is a frozen clock.
type ClockSpec struct {
	StartNs    int64 `json:"start_ns"`
	TickNs     int64 `json:"tick_ns"`
	Every      int64 `json:"every,omitempty"`
	JumpAtCall int64 `json:"jump_at_call,omitempty"`
	JumpNs     int64 `json:"jump_ns,omitempty"`
}

var clk struct {
	spec  ClockSpec
	now   int64
	min   int64
	max   int64
	reads int64
}

func beginClock(s ClockSpec) {
	if s.StartNs == 0 {
		s.StartNs = 1_700_000_000_000_000_000
	}
	clk.spec = s
	clk.now = s.StartNs
	clk.min, clk.max = s.StartNs, s.StartNs
	clk.reads = 0
}

func endClock(r *Report) {
	r.ClockReads = clk.reads
	r.ClockSpanNs = clk.max - clk.min
}

//go:norace
func clockRead() int64 {
	clk.reads++
	if clk.spec.Every <= 1 || clk.reads%clk.spec.Every == 0 {
		clk.now += clk.spec.TickNs
	}
	if clk.spec.JumpAtCall > 0 && clk.reads == clk.spec.JumpAtCall {
		clk.now += clk.spec.JumpNs
	}
	if clk.now > clk.max {
		clk.max = clk.now
	}
	if clk.now < clk.min {
		clk.min = clk.now
	}
	return clk.now
}

// Now replaces time.Now in the instrumented code.
func Now() time.Time {
	if !Active() {
		return time.Now()
	}
	return time.Unix(0, clockRead())
}

// Advance moves the simulated clock (harness use, between operations).
//
//go:norace
func Advance(ns int64) {
	clk.now += ns
	if clk.now > clk.max {
		clk.max = clk.now
	}
	if clk.now < clk.min {
		clk.min = clk.now
	}
}

// ClockNow reads the simulated clock without advancing it (harness use: file mtimes).
//
//go:norace
func ClockNow() int64 { return clk.now }
