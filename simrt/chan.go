package simrt

// Channel operations of the instrumented code. The real channel operation is performed (non-blocking), so the
// race detector sees the real synchronisation; only the WAITING is simulated: a task that cannot proceed hands
// the baton on, and is given another try whenever another task has made progress on a channel or lock.
// select statements and range-over-channel are not rewritten (simgen lists them as UNSUPPORTED).

// Recv replaces `<-ch`.
func Recv[T any](ch <-chan T) T {
	v, _ := Recv2(ch)
	return v
}

// Recv2 replaces `v, ok := <-ch`.
func Recv2[T any](ch <-chan T) (T, bool) {
	if !multi() {
		v, ok := <-ch
		return v, ok
	}
	for {
		Yield(-9)
		select {
		case v, ok := <-ch:
			wake()
			return v, ok
		default:
		}
		if ch == nil {
			block()
			continue
		}
		block()
	}
}

// Send replaces `ch <- v`.
func Send[T any](ch chan<- T, v T) {
	if !multi() {
		ch <- v
		return
	}
	for {
		Yield(-10)
		select {
		case ch <- v:
			wake()
			return
		default:
		}
		block()
	}
}

// Wake is called after close(ch) in the instrumented code: receivers blocked on the channel may proceed.
//
//go:norace
func Wake() {
	if k.on && k.ntasks > 1 {
		wake()
	}
}
