package simrt

import (
	"fmt"
	"iter"
	"reflect"
	"sort"
)

// MapSpec is the iteration order the kernel imposes on `range m` over maps in
// the instrumented code: "native" (Go's own randomised order), "asc", "desc",
// or "perm" (seeded permutation, different at every range statement executed).
// Sites overrides the order per range site (used to name the site that matters).
type MapSpec struct {
	Order string         `json:"order"`
	Seed  uint64         `json:"seed,omitempty"`
	Sites map[int]string `json:"sites,omitempty"`
}

const maxSites = 8192

var (
	mapOrder   int // 0 native 1 asc 2 desc 3 perm
	mapSiteOrd [maxSites]int8
	mapHits    [maxSites]int32
	mapRng     rng
	mapRanges  int64
)

func orderCode(s string) int {
	switch s {
	case "asc":
		return 1
	case "desc":
		return 2
	case "perm":
		return 3
	}
	return 0
}

func beginMaps(s MapSpec) {
	mapOrder = orderCode(s.Order)
	for i := range mapSiteOrd {
		mapSiteOrd[i] = -1
		mapHits[i] = 0
	}
	for site, o := range s.Sites {
		if site >= 0 && site < maxSites {
			mapSiteOrd[site] = int8(orderCode(o))
		}
	}
	mapRng.seed(s.Seed ^ 0x1234567887654321)
	mapRanges = 0
}

func endMaps(r *Report) {
	r.MapRanges = mapRanges
	for i := range mapHits {
		if mapHits[i] > 0 {
			r.MapSites = append(r.MapSites, i)
		}
	}
}

//go:norace
func mapPolicy(site int) int {
	if !k.on {
		return 0
	}
	mapRanges++
	if site >= 0 && site < maxSites {
		mapHits[site]++
		if o := mapSiteOrd[site]; o >= 0 {
			return int(o)
		}
	}
	return mapOrder
}

//go:norace
func mapShuffle(n int, swap func(i, j int)) {
	for i := n - 1; i > 0; i-- {
		j := int(mapRng.below(uint64(i + 1)))
		swap(i, j)
	}
}

func keyLess(a, b any) bool {
	switch x := a.(type) {
	case string:
		if y, ok := b.(string); ok {
			return x < y
		}
	case int:
		if y, ok := b.(int); ok {
			return x < y
		}
	}
	return fmt.Sprint(a) < fmt.Sprint(b)
}

// MapSeq iterates m in the order the run's policy dictates, with the
// semantics of a range statement: an entry deleted before it is reached is not
// produced; entries added during the iteration are not produced.
func MapSeq[M ~map[K]V, K comparable, V any](site int, m M) iter.Seq2[K, V] {
	return func(yield func(K, V) bool) {
		pol := mapPolicy(site)
		if pol == 0 {
			for k, v := range m {
				if !yield(k, v) {
					return
				}
			}
			return
		}
		keys := make([]K, 0, len(m))
		for k := range m {
			keys = append(keys, k)
		}
		sort.Slice(keys, func(i, j int) bool { return keyLess(any(keys[i]), any(keys[j])) })
		switch pol {
		case 2:
			for i, j := 0, len(keys)-1; i < j; i, j = i+1, j-1 {
				keys[i], keys[j] = keys[j], keys[i]
			}
		case 3:
			mapShuffle(len(keys), func(i, j int) { keys[i], keys[j] = keys[j], keys[i] })
		}
		for _, k := range keys {
			v, ok := m[k]
			if !ok {
				continue
			}
			if !yield(k, v) {
				return
			}
		}
	}
}

// PermuteValues orders the result of reflect.Value.MapKeys by the run's policy.
func PermuteValues(site int, keys []reflect.Value) []reflect.Value {
	pol := mapPolicy(site)
	if pol == 0 {
		return keys
	}
	sort.Slice(keys, func(i, j int) bool {
		return keyLess(valueKey(keys[i]), valueKey(keys[j]))
	})
	switch pol {
	case 2:
		for i, j := 0, len(keys)-1; i < j; i, j = i+1, j-1 {
			keys[i], keys[j] = keys[j], keys[i]
		}
	case 3:
		mapShuffle(len(keys), func(i, j int) { keys[i], keys[j] = keys[j], keys[i] })
	}
	return keys
}

func valueKey(v reflect.Value) any {
	if v.CanInterface() {
		return v.Interface()
	}
	return v.String()
}

// MapIter replaces *reflect.MapIter for `X.MapRange()` in the instrumented code (Next / Key / Value only): the
// entries are collected in one pass of the real iterator (so a key that does not equal itself, NaN, keeps its
// value) and handed out in the order the run's policy dictates.
type MapIter struct {
	keys, vals []reflect.Value
	i          int
}

func (it *MapIter) Next() bool           { it.i++; return it.i <= len(it.keys) }
func (it *MapIter) Key() reflect.Value   { return it.keys[it.i-1] }
func (it *MapIter) Value() reflect.Value { return it.vals[it.i-1] }

func MapRange(site int, m reflect.Value) *MapIter {
	pol := mapPolicy(site)
	it := &MapIter{}
	for r := m.MapRange(); r.Next(); {
		it.keys = append(it.keys, r.Key())
		it.vals = append(it.vals, r.Value())
	}
	if pol == 0 {
		return it
	}
	idx := make([]int, len(it.keys))
	for i := range idx {
		idx[i] = i
	}
	sort.SliceStable(idx, func(a, b int) bool { return keyLess(valueKey(it.keys[idx[a]]), valueKey(it.keys[idx[b]])) })
	switch pol {
	case 2:
		for i, j := 0, len(idx)-1; i < j; i, j = i+1, j-1 {
			idx[i], idx[j] = idx[j], idx[i]
		}
	case 3:
		mapShuffle(len(idx), func(i, j int) { idx[i], idx[j] = idx[j], idx[i] })
	}
	keys, vals := make([]reflect.Value, len(idx)), make([]reflect.Value, len(idx))
	for i, j := range idx {
		keys[i], vals[i] = it.keys[j], it.vals[j]
	}
	it.keys, it.vals = keys, vals
	return it
}

// MapKeys and MapValues replace maps.Keys / maps.Values of the standard library (iterators over a map in Go's random
// order) in the instrumented code; maps.All is replaced by MapSeq.
func MapKeys[M ~map[K]V, K comparable, V any](site int, m M) iter.Seq[K] {
	return func(yield func(K) bool) {
		for k := range MapSeq(site, m) {
			if !yield(k) {
				return
			}
		}
	}
}

func MapValues[M ~map[K]V, K comparable, V any](site int, m M) iter.Seq[V] {
	return func(yield func(V) bool) {
		for _, v := range MapSeq(site, m) {
			if !yield(v) {
				return
			}
		}
	}
}
