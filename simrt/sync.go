package simrt

import "sync"

// Mutex wraps a real sync.Mutex: the race detector sees the real acquire and
// release; only *blocking* is simulated (a task that cannot take the lock
// hands the baton on instead of parking its OS thread).
type Mutex struct{ mu sync.Mutex }

// lockAlone: with a single task under the kernel nobody else can release a lock that is held, so a lock that
// cannot be taken at once is a deadlock (e.g. a mutex left locked by an earlier render that panicked).
func lockAlone(try func() bool, lock func()) {
	if !Active() {
		lock()
		return
	}
	if !try() {
		noteDeadlock()
		panic(Deadlock{})
	}
}

func (m *Mutex) Lock() {
	if !multi() {
		lockAlone(m.mu.TryLock, m.mu.Lock)
		return
	}
	for {
		Yield(-1)
		if m.mu.TryLock() {
			return
		}
		block()
	}
}

func (m *Mutex) TryLock() bool { return m.mu.TryLock() }

func (m *Mutex) Unlock() {
	m.mu.Unlock()
	if multi() {
		wake()
		Yield(-2)
	}
}

// RWMutex wraps a real sync.RWMutex in the same way, and models the one rule of sync.RWMutex that a
// TryLock loop would lose: a writer that has called Lock and is waiting for the readers to leave blocks every
// later RLock until it has unlocked again (so a goroutine that read-locks twice deadlocks when a writer arrives in
// between - "recursive read locking" in the sync documentation). The real mutex is never asked to block, so it
// never has a pending writer of its own; `announced` is the pending (or active) writer, kept in plain memory
// that only //go:norace helpers touch (one task at a time, under the baton).
type RWMutex struct {
	mu sync.RWMutex
	st rwState
}

type rwState struct{ announced bool }

//go:norace
func rwAnnounce(s *rwState) bool {
	if s.announced {
		return false
	}
	s.announced = true
	return true
}

//go:norace
func rwClear(s *rwState) { s.announced = false }

//go:norace
func rwAnnounced(s *rwState) bool { return s.announced }

func (m *RWMutex) Lock() {
	if !multi() {
		lockAlone(m.mu.TryLock, m.mu.Lock)
		return
	}
	mine := false
	for {
		Yield(-3)
		if !mine {
			// writers queue behind the one that has announced itself (sync.RWMutex: its inner mutex w)
			if !rwAnnounce(&m.st) {
				block()
				continue
			}
			mine = true
		}
		if m.mu.TryLock() { // succeeds once the readers that were in have left
			return
		}
		block()
	}
}

func (m *RWMutex) Unlock() {
	rwClear(&m.st)
	m.mu.Unlock()
	if multi() {
		wake()
		Yield(-4)
	}
}

func (m *RWMutex) RLock() {
	if !multi() {
		lockAlone(m.mu.TryRLock, m.mu.RLock)
		return
	}
	for {
		Yield(-5)
		if !rwAnnounced(&m.st) && m.mu.TryRLock() {
			return
		}
		block()
	}
}

func (m *RWMutex) RUnlock() {
	m.mu.RUnlock()
	if multi() {
		wake()
		Yield(-6)
	}
}

func (m *RWMutex) TryLock() bool {
	if rwAnnounced(&m.st) || !m.mu.TryLock() {
		return false
	}
	rwAnnounce(&m.st)
	return true
}
func (m *RWMutex) TryRLock() bool { return !rwAnnounced(&m.st) && m.mu.TryRLock() }
func (m *RWMutex) RLocker() sync.Locker {
	return rlocker{m}
}

type rlocker struct{ m *RWMutex }

func (r rlocker) Lock()   { r.m.RLock() }
func (r rlocker) Unlock() { r.m.RUnlock() }

// Once has sync.Once semantics; a task may yield inside f, so callers that
// arrive meanwhile block on the simulated mutex, not on an OS lock.
type Once struct {
	mu   Mutex
	done bool
}

func (o *Once) Do(f func()) {
	o.mu.Lock()
	if o.done {
		o.mu.Unlock()
		return
	}
	defer o.mu.Unlock()
	defer func() { o.done = true }()
	f()
}
