package simrt

import "sync"

// Mutex wraps a real sync.Mutex: the race detector sees the real acquire and
// release; only *blocking* is simulated (a task that cannot take the lock
// hands the baton on instead of parking its OS thread).
type Mutex struct{ mu sync.Mutex }

// lockAlone: with a single task under the kernel nobody else can release a lock that is held, so a lock that
// cannot be taken at once is a deadlock (e.g. a mutex left locked by an earlier render that panicked).
func lockAlone(try func() bool, lock func()) {
	if !Active() {
		lock()
		return
	}
	if !try() {
		noteDeadlock()
		panic(Deadlock{})
	}
}

func (m *Mutex) Lock() {
	if !multi() {
		lockAlone(m.mu.TryLock, m.mu.Lock)
		return
	}
	for {
		Yield(-1)
		if m.mu.TryLock() {
			return
		}
		block()
	}
}

func (m *Mutex) TryLock() bool { return m.mu.TryLock() }

func (m *Mutex) Unlock() {
	m.mu.Unlock()
	if multi() {
		wake()
		Yield(-2)
	}
}

// RWMutex wraps a real sync.RWMutex in the same way.
type RWMutex struct{ mu sync.RWMutex }

func (m *RWMutex) Lock() {
	if !multi() {
		lockAlone(m.mu.TryLock, m.mu.Lock)
		return
	}
	for {
		Yield(-3)
		if m.mu.TryLock() {
			return
		}
		block()
	}
}

func (m *RWMutex) Unlock() {
	m.mu.Unlock()
	if multi() {
		wake()
		Yield(-4)
	}
}

func (m *RWMutex) RLock() {
	if !multi() {
		lockAlone(m.mu.TryRLock, m.mu.RLock)
		return
	}
	for {
		Yield(-5)
		if m.mu.TryRLock() {
			return
		}
		block()
	}
}

func (m *RWMutex) RUnlock() {
	m.mu.RUnlock()
	if multi() {
		wake()
		Yield(-6)
	}
}

func (m *RWMutex) TryLock() bool  { return m.mu.TryLock() }
func (m *RWMutex) TryRLock() bool { return m.mu.TryRLock() }
func (m *RWMutex) RLocker() sync.Locker {
	return rlocker{m}
}

type rlocker struct{ m *RWMutex }

func (r rlocker) Lock()   { r.m.RLock() }
func (r rlocker) Unlock() { r.m.RUnlock() }

// Once has sync.Once semantics; a task may yield inside f, so callers that
// arrive meanwhile block on the simulated mutex, not on an OS lock.
type Once struct {
	mu   Mutex
	done bool
}

func (o *Once) Do(f func()) {
	o.mu.Lock()
	if o.done {
		o.mu.Unlock()
		return
	}
	defer o.mu.Unlock()
	defer func() { o.done = true }()
	f()
}
