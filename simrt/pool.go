package simrt

import (
	"sync"
	"unsafe"
)

// PoolSpec is the recycling behaviour of every simrt.Pool in a run.
//
//	Mode "fresh":  Get always calls New, Put drops (no recycling at all)
//	Mode "lifo" / "fifo" / "random": which pooled object Get hands out
//	ReusePerMille: chance that Get recycles when an object is available (0 => 1000)
//	DropPerMille:  chance that Put drops the object (sync.Pool may always do that)
//	Poison: Put marks a pooled scope map with a reserved key, Get removes it;
//	        legal (the object is the pool's between Put and Get) and makes a
//	        use-after-Put visible.
type PoolSpec struct {
	Mode          string `json:"mode"`
	ReusePerMille int    `json:"reuse_per_mille,omitempty"`
	DropPerMille  int    `json:"drop_per_mille,omitempty"`
	Poison        bool   `json:"poison,omitempty"`
	Seed          uint64 `json:"seed,omitempty"`
}

// PoisonKey is the reserved key a pooled map carries while it belongs to the pool.
const PoisonKey = "\x00simrt-poison\x00"

const (
	maxPools     = 16
	maxPoolItems = 256
)

type poolItem struct {
	v     any
	owner int
	mlen  int // entries of a pooled scope map at Put (poison key included)
}

type poolState struct {
	p     *Pool
	items [maxPoolItems]poolItem
	n     int
}

var (
	pools    [maxPools]poolState
	npools   int
	poolGen  uint64 = 1
	poolSpec PoolSpec
	poolMode int // 0 fresh 1 lifo 2 fifo 3 random
	poolRng  rng
	poolStat struct{ gets, reused, cross, dropped, dirty int64 }

	poolRaceHash [128]uint64
)

// Pool replaces sync.Pool in the instrumented code.
type Pool struct {
	New  func() any
	real sync.Pool
	gen  uint64
	slot int
}

func resetPools() {
	for i := 0; i < npools; i++ {
		pools[i] = poolState{}
	}
	npools = 0
	poolGen++
}

func beginPools(s PoolSpec) {
	resetPools()
	poolSpec = s
	switch s.Mode {
	case "lifo":
		poolMode = 1
	case "fifo":
		poolMode = 2
	case "random":
		poolMode = 3
	default:
		poolMode = 0
	}
	if poolSpec.ReusePerMille == 0 {
		poolSpec.ReusePerMille = 1000
	}
	poolRng.seed(s.Seed ^ 0xa5a5a5a5deadbeef)
	poolStat = struct{ gets, reused, cross, dropped, dirty int64 }{}
}

func endPools(r *Report) {
	r.PoolGets = poolStat.gets
	r.PoolReused = poolStat.reused
	r.PoolCross = poolStat.cross
	r.PoolDropped = poolStat.dropped
	r.PoolDirty = poolStat.dirty
}

func poolRaceAddr(x any) unsafe.Pointer {
	ptr := uintptr((*[2]unsafe.Pointer)(unsafe.Pointer(&x))[1])
	h := uint32((uint64(uint32(ptr)) * 0x85ebca6b) >> 16)
	return unsafe.Pointer(&poolRaceHash[h%uint32(len(poolRaceHash))])
}

//go:norace
func (p *Pool) state() *poolState {
	if p.gen != poolGen || p.slot == 0 {
		if npools >= maxPools {
			return nil
		}
		pools[npools] = poolState{p: p}
		npools++
		p.slot = npools
		p.gen = poolGen
	}
	return &pools[p.slot-1]
}

//go:norace
func (p *Pool) take() (any, int, bool) {
	poolStat.gets++
	st := p.state()
	if st == nil || poolMode == 0 || st.n == 0 {
		return nil, 0, false
	}
	if poolRng.below(1000) >= uint64(poolSpec.ReusePerMille) {
		return nil, 0, false
	}
	idx := st.n - 1
	switch poolMode {
	case 2:
		idx = 0
	case 3:
		idx = int(poolRng.below(uint64(st.n)))
	}
	it := st.items[idx]
	// element-wise move: the copy builtin calls runtime.slicecopy, which carries race-detector hooks
	for j := idx; j < st.n-1; j++ {
		st.items[j] = st.items[j+1]
	}
	st.n--
	st.items[st.n] = poolItem{}
	poolStat.reused++
	if it.owner != k.cur {
		poolStat.cross++
	}
	return it.v, it.mlen, true
}

//go:norace
func (p *Pool) give(v any, mlen int) bool {
	st := p.state()
	if st == nil || poolMode == 0 || st.n >= maxPoolItems {
		poolStat.dropped++
		return false
	}
	if poolSpec.DropPerMille > 0 && poolRng.below(1000) < uint64(poolSpec.DropPerMille) {
		poolStat.dropped++
		return false
	}
	st.items[st.n] = poolItem{v: v, owner: k.cur, mlen: mlen}
	st.n++
	return true
}

//go:norace
func notePoolDirty() { poolStat.dirty++ }

// Get hands out a pooled object or a new one; the choice is the kernel's.
func (p *Pool) Get() any {
	if !Active() {
		if v := p.real.Get(); v != nil {
			return v
		}
		if p.New != nil {
			return p.New()
		}
		return nil
	}
	Yield(-7)
	if v, mlen, ok := p.take(); ok {
		raceAcquire(poolRaceAddr(v))
		if poolSpec.Poison {
			if m, ok := v.(map[string]any); ok {
				// somebody touched the map while the pool owned it: the poison key is gone or the number of entries is
				// not what it was at Put (whether a map is emptied before Put or after Get is the client's business)
				if _, has := m[PoisonKey]; !has || len(m) != mlen {
					notePoolDirty()
				}
				delete(m, PoisonKey)
			}
		}
		return v
	}
	if p.New != nil {
		return p.New()
	}
	return nil
}

// Put gives an object to the pool.
func (p *Pool) Put(v any) {
	if v == nil {
		return
	}
	if !Active() {
		p.real.Put(v)
		return
	}
	Yield(-8)
	mlen := 0
	if poolMode != 0 && poolSpec.Poison {
		if m, ok := v.(map[string]any); ok {
			m[PoisonKey] = true
			mlen = len(m)
		}
	}
	raceReleaseMerge(poolRaceAddr(v))
	p.give(v, mlen)
}
