// Package simrt is the simulation kernel that simgen links into a scratch
// copy of vuego. It owns: which task runs (the baton), the step counter that
// drives environment events, the decision trace, the pools, map iteration
// order and the clock.
//
// Rules that keep the race detector honest (see DESIGN.md §4):
//   - all kernel state shared between tasks is plain memory in fixed-size
//     arrays, touched only from //go:norace functions; no channel, mutex or
//     atomic is used for the baton hand-off, so the detector sees only the
//     program's own synchronisation;
//   - when no run is active (pass-through mode) every entry point reduces to
//     the construct it replaced.
package simrt

import (
	"fmt"
	"runtime"
	"sync"
)

const (
	MaxTasks    = 256
	maxSwitches = 1 << 14
	maxResets   = 64
)

// task status
const (
	tsNone int8 = iota
	tsRunnable
	tsBlocked
	tsDone
)

// Switch is one scheduling decision: at global step Step the baton went to task To.
type Switch struct {
	Step int64 `json:"s"`
	To   int   `json:"t"`
}

// SchedSpec selects the scheduling strategy of a run.
//
//	"explicit": follow Explicit; at a forced switch with no entry, lowest runnable task
//	"random":   at each yield switch with probability PerMille/1000 to a uniformly chosen runnable task
//	"pct":      random priorities, lowered at Depth random change points within Horizon steps
//	"rtc":      run to completion in a seeded order (switch only when a task ends or blocks)
type SchedSpec struct {
	Strategy string   `json:"strategy"`
	Seed     uint64   `json:"seed,omitempty"`
	PerMille int      `json:"per_mille,omitempty"`
	Depth    int      `json:"depth,omitempty"`
	Horizon  int64    `json:"horizon,omitempty"`
	Explicit []Switch `json:"explicit,omitempty"`
}

// Config is everything the kernel decides in a run; a run is a pure function of it and the code.
type Config struct {
	MaxSteps int64     `json:"max_steps"`
	Sched    SchedSpec `json:"sched"`
	Pool     PoolSpec  `json:"pool"`
	Map      MapSpec   `json:"map"`
	Clock    ClockSpec `json:"clock"`
}

// Report is what a run did, from counters.
type Report struct {
	Steps       int64    `json:"steps"`
	Switches    []Switch `json:"switches,omitempty"`
	Truncated   bool     `json:"truncated,omitempty"`
	Overrun     bool     `json:"overrun,omitempty"`
	Deadlock    bool     `json:"deadlock,omitempty"`
	LockBlocks  int64    `json:"lock_blocks"`
	PoolGets    int64    `json:"pool_gets"`
	PoolReused  int64    `json:"pool_reused"`
	PoolCross   int64    `json:"pool_cross_task"`
	PoolDropped int64    `json:"pool_dropped"`
	PoolDirty   int64    `json:"pool_dirty"`
	Stalls      int64    `json:"stalls,omitempty"`
	MapRanges   int64    `json:"map_ranges"`
	ClockReads  int64    `json:"clock_reads"`
	ClockSpanNs int64    `json:"clock_span_ns"`
	SchedHash   uint64   `json:"sched_hash"`
	MapSites    []int    `json:"map_sites,omitempty"`
}

// StepOverrun is the panic value raised inside a task that exceeded the step budget.
type StepOverrun struct{ Steps int64 }

func (s StepOverrun) Error() string {
	return fmt.Sprintf("simrt: step budget exceeded (%d steps)", s.Steps)
}

// Deadlock is the panic value raised when every live task is blocked on a lock.
type Deadlock struct{}

func (Deadlock) Error() string { return "simrt: all live tasks blocked on locks" }

type kernel struct {
	on       bool
	ntasks   int
	cur      int
	parent   [MaxTasks]int16 // task that started this one with a go statement (-1: started by the harness)
	status   [MaxTasks]int8
	prio     [MaxTasks]int64
	step     int64
	maxSteps int64

	strategy int // 0 explicit, 1 random, 2 pct, 3 rtc
	rng      rng
	perMille uint64
	change   [64]int64
	nchange  int
	explicit []Switch
	expPos   int

	sw         [maxSwitches]Switch
	nsw        int
	truncated  bool
	overrun    bool
	deadlock   bool
	deadlockOp bool
	blocks     int64
	schedHash  uint64

	// a task held back by the fault injector (StallCurrentAfterUnlocks): not eligible while another task can run
	stalled   [MaxTasks]bool
	nstalled  int
	stallTask int
	stallLeft int
	stalls    int64

	cfg Config
}

// K is the single kernel of the process.
var k kernel

var (
	resets  [maxResets]func()
	nresets int
)

// RegisterReset is called from init functions simgen generates: f re-assigns a
// package-level variable of the instrumented code from its own initialiser.
func RegisterReset(f func()) {
	if nresets < maxResets {
		resets[nresets] = f
		nresets++
	} else {
		panic("simrt: too many reset hooks")
	}
}

// ResetGlobals restores every registered package-level variable and empties the pools.
func ResetGlobals() {
	for i := 0; i < nresets; i++ {
		resets[i]()
	}
	resetPools()
}

// Active reports whether a simulated run is in progress.
//
//go:norace
func Active() bool { return k.on }

// OpStart gives the operation that starts now its own step budget (cfg.MaxSteps, default 60000000:
// three orders of magnitude above the largest legitimate render of the workload).
//
//go:norace
func OpStart() {
	b := k.cfg.MaxSteps
	if b <= 0 {
		b = 60_000_000
	}
	if k.ntasks <= 1 {
		k.maxSteps = k.step + b
	} else if k.maxSteps < k.step+b {
		k.maxSteps = k.step + b
	}
}

// Step is the global step counter: the simulator's notion of "when".
//
//go:norace
func Step() int64 { return k.step }

// Cur is the index of the task holding the baton.
//
//go:norace
func Cur() int { return k.cur }

// Root is the harness task on whose behalf the current task runs: itself, or - for a task the code under test
// started with a go statement - the harness task at the top of its chain of starters.
//
//go:norace
func Root() int {
	t := k.cur
	for n := 0; t >= 0 && t < MaxTasks && k.parent[t] >= 0 && n < MaxTasks; n++ {
		t = int(k.parent[t])
	}
	return t
}

// Begin starts a run. Must be called with no task running.
func Begin(cfg Config) {
	if k.on {
		panic("simrt: Begin while a run is active")
	}
	k = kernel{}
	for i := range k.parent {
		k.parent[i] = -1
	}
	k.cfg = cfg
	k.maxSteps = cfg.MaxSteps
	if k.maxSteps <= 0 {
		k.maxSteps = 5_000_000
	}
	k.ntasks = 1
	k.status[0] = tsRunnable
	switch cfg.Sched.Strategy {
	case "random":
		k.strategy = 1
	case "pct":
		k.strategy = 2
	case "rtc":
		k.strategy = 3
	default:
		k.strategy = 0
	}
	k.rng.seed(cfg.Sched.Seed ^ 0x9e3779b97f4a7c15)
	k.perMille = uint64(cfg.Sched.PerMille)
	k.explicit = cfg.Sched.Explicit
	beginPools(cfg.Pool)
	beginMaps(cfg.Map)
	beginClock(cfg.Clock)
	k.on = true
}

// End stops the run and reports what it did.
func End() Report {
	k.on = false
	r := Report{
		Steps:      k.step,
		Truncated:  k.truncated,
		Overrun:    k.overrun,
		Deadlock:   k.deadlock,
		LockBlocks: k.blocks,
		SchedHash:  k.schedHash,
		Stalls:     k.stalls,
	}
	r.Switches = append(r.Switches, k.sw[:k.nsw]...)
	endPools(&r)
	endMaps(&r)
	endClock(&r)
	return r
}

// RunTasks runs fns as concurrent tasks under the kernel's scheduler and
// returns when all have ended. Each fn must recover its own panics.
// Exactly one task executes at any time; which one is the kernel's decision.
func RunTasks(fns []func()) {
	n := len(fns)
	if n == 0 {
		return
	}
	if n > MaxTasks {
		panic("simrt: too many tasks")
	}
	if !k.on {
		panic("simrt: RunTasks without Begin")
	}
	k.ntasks = n
	for i := 0; i < n; i++ {
		k.status[i] = tsRunnable
		k.parent[i] = -1
	}
	if k.strategy == 2 || k.strategy == 3 {
		// distinct random priorities n..2n-1 (higher runs first)
		for i := 0; i < n; i++ {
			k.prio[i] = int64(n + i)
		}
		for i := n - 1; i > 0; i-- {
			j := int(k.rng.below(uint64(i + 1)))
			k.prio[i], k.prio[j] = k.prio[j], k.prio[i]
		}
		if k.strategy == 2 {
			d := k.cfg.Sched.Depth
			if d > len(k.change) {
				d = len(k.change)
			}
			h := k.cfg.Sched.Horizon
			if h <= 0 {
				h = 2000
			}
			for i := 0; i < d; i++ {
				k.change[i] = int64(k.rng.below(uint64(h))) + 1
			}
			k.nchange = d
		}
	}
	k.cur = -1
	first := k.choose(true)
	k.record(first)
	var wg sync.WaitGroup
	wg.Add(n)
	for i := 0; i < n; i++ {
		i := i
		go func() {
			defer wg.Done()
			waitTurn(i)
			defer taskDone(i)
			fns[i]()
		}()
	}
	setCur(first)
	wg.Wait()
	k.ntasks = 1
	k.cur = 0
	k.status[0] = tsRunnable
}

//go:norace
func setCur(i int) { k.cur = i }

//go:norace
func waitTurn(me int) {
	for k.cur != me {
		runtime.Gosched()
	}
}

//go:norace
func (kk *kernel) record(to int) {
	kk.schedHash = (kk.schedHash ^ uint64(to+1) ^ uint64(kk.step)<<8) * 0x100000001b3
	if kk.nsw < maxSwitches {
		kk.sw[kk.nsw] = Switch{Step: kk.step, To: to}
		kk.nsw++
	} else {
		kk.truncated = true
	}
}

// choose picks the task to run next. forced: the current task cannot continue.
// Returns -1 if no task is runnable.
//
//go:norace
func (kk *kernel) choose(forced bool) int {
	n := kk.ntasks
	cnt := 0
	for i := 0; i < n; i++ {
		if kk.status[i] == tsRunnable && !kk.stalled[i] {
			cnt++
		}
	}
	if cnt == 0 && kk.nstalled > 0 {
		// nobody else can run: the stall is over
		for i := 0; i < n; i++ {
			kk.stalled[i] = false
			if kk.status[i] == tsRunnable {
				cnt++
			}
		}
		kk.nstalled = 0
	}
	if cnt == 0 {
		return -1
	}
	switch kk.strategy {
	case 0: // explicit
		if kk.expPos < len(kk.explicit) && kk.explicit[kk.expPos].Step == kk.step {
			to := kk.explicit[kk.expPos].To
			kk.expPos++
			if to >= 0 && to < n && kk.status[to] == tsRunnable && !kk.stalled[to] {
				return to
			}
		}
		if !forced {
			return kk.cur
		}
		for i := 0; i < n; i++ {
			if kk.status[i] == tsRunnable && !kk.stalled[i] {
				return i
			}
		}
	case 1: // random
		if !forced && (kk.truncated || kk.rng.below(1000) >= kk.perMille) {
			return kk.cur
		}
		j := int(kk.rng.below(uint64(cnt)))
		for i := 0; i < n; i++ {
			if kk.status[i] == tsRunnable && !kk.stalled[i] {
				if j == 0 {
					return i
				}
				j--
			}
		}
	case 2, 3: // pct / rtc: highest priority runnable
		if kk.strategy == 2 && !forced {
			for c := 0; c < kk.nchange; c++ {
				if kk.change[c] == kk.step && kk.cur >= 0 {
					kk.prio[kk.cur] = int64(-c - 1)
				}
			}
		}
		best := -1
		for i := 0; i < n; i++ {
			if kk.status[i] == tsRunnable && !kk.stalled[i] && (best < 0 || kk.prio[i] > kk.prio[best]) {
				best = i
			}
		}
		return best
	}
	return kk.cur
}

// StallCurrentAfterUnlocks is fault injection on the schedule ("slow node"): the task that is running now is
// held back right after the n-th lock release it performs from here on, and stays ineligible until no other
// task can run. The environment calls it when a fault it injects (a file edited underneath) was triggered by
// this task's own access, so that the task sits on what it validated under the lock while the others move on.
//
//go:norace
func StallCurrentAfterUnlocks(n int) {
	if !k.on || k.ntasks <= 1 || n <= 0 {
		return
	}
	k.stallTask = k.cur
	k.stallLeft = n
}

// Yield is a scheduling point. site identifies the source position (see the site table).
//
//go:norace
func Yield(site int) {
	if !k.on {
		return
	}
	k.step++
	if k.step > k.maxSteps {
		k.overrun = true
		panic(StepOverrun{k.step})
	}
	if k.ntasks <= 1 {
		return
	}
	forced := false
	if k.stallLeft > 0 && k.cur == k.stallTask && (site == -2 || site == -4 || site == -6) {
		// the yield right after a lock release of the task the fault injector singled out
		k.stallLeft--
		if k.stallLeft == 0 && !k.stalled[k.cur] {
			k.stalled[k.cur] = true
			k.nstalled++
			k.stalls++
			forced = true
		}
	}
	next := k.choose(forced)
	if next != k.cur && next >= 0 {
		k.record(next)
		switchTo(next)
	}
}

//go:norace
func switchTo(next int) {
	me := k.cur
	k.cur = next
	for k.cur != me {
		runtime.Gosched()
	}
}

// block marks the current task blocked (on a lock) and hands the baton on.
// It returns when the task has been woken and given the baton again.
//
//go:norace
func block() {
	me := k.cur
	k.blocks++
	k.status[me] = tsBlocked
	next := k.choose(true)
	if next < 0 {
		// every live task is blocked: a real deadlock of the program
		k.deadlock = true
		k.deadlockOp = true
		k.status[me] = tsRunnable
		panic(Deadlock{})
	}
	k.record(next)
	switchTo(next)
}

// wake makes every blocked task runnable again (called after any unlock).
//
//go:norace
func wake() {
	for i := 0; i < k.ntasks; i++ {
		if k.status[i] == tsBlocked {
			k.status[i] = tsRunnable
		}
	}
}

//go:norace
func taskDone(me int) {
	k.status[me] = tsDone
	// blocked tasks get another look at what they wait for (the ended task may have released it on its way out);
	// one that is still blocked with nobody left to run ends in block() with the deadlock verdict
	wake()
	next := k.choose(true)
	if next >= 0 {
		k.record(next)
	}
	k.cur = next
}

//go:norace
func noteDeadlock() { k.deadlock = true; k.deadlockOp = true }

// TakeDeadlock reports whether a deadlock was detected since the last call (the code under test may have
// recovered the Deadlock panic itself; the verdict must not depend on that).
//
//go:norace
func TakeDeadlock() bool { d := k.deadlockOp; k.deadlockOp = false; return d }

//go:norace
func multi() bool { return k.on && k.ntasks > 1 }

// Go runs f as a new task if a multi-task run is active; otherwise as a plain goroutine.
// vuego has no go statements today; simgen routes any future one here.
func Go(site int, f func()) {
	if !multi() {
		go f()
		return
	}
	i := addTask()
	go func() {
		waitTurn(i)
		defer taskDone(i)
		f()
	}()
}

//go:norace
func addTask() int {
	if k.ntasks >= MaxTasks {
		panic("simrt: too many tasks")
	}
	i := k.ntasks
	k.status[i] = tsRunnable
	k.prio[i] = 0
	k.parent[i] = int16(k.cur)
	k.ntasks++
	return i
}
